//! primitive-level correspondence: cosmwasm-std 1.5.4 numeric operations against coq/theories/Prim.v
use crate::common::*;
use cosmwasm_std::{Decimal, Decimal256, Fraction, Isqrt, Uint128, Uint256};
use serde_json::json;
use std::str::FromStr;

fn u256(s: &str) -> Uint256 { Uint256::from_str(s).unwrap() }

/// a 256-bit magnitude as decimal string
fn mag256(rng: &mut Rng) -> String {
    match rng.below(8) {
        0 => "0".into(), 1 => "1".into(),
        2 => Uint256::MAX.to_string(),
        3 => (Uint256::from(u128::MAX) + Uint256::from(rng.below(3) as u128)).to_string(),
        4 => (Uint256::from(magnitude(rng, 128)) * Uint256::from(magnitude(rng, 128))).to_string(),
        5 => (Uint256::from(magnitude(rng, 128)) * Uint256::from(DEC)).to_string(),
        _ => magnitude(rng, 128).to_string(),
    }
}

pub fn run_stream(out: &mut Out, rng: &mut Rng, n: u64) {
    for k in 0..n {
        let op = k % 7;
        let a = mag256(rng); let b = mag256(rng);
        let a128 = magnitude(rng, 128); let b128 = if rng.chance(1, 10) { 0 } else { magnitude(rng, 128) }; let c128 = if rng.chance(1, 10) { 0 } else { magnitude(rng, 128) };
        let (input, o): (String, Outcome<String>) = match op {
            0 => (format!("(0, {}, {}, 0)", a, b), run_catch(|| Ok::<_, ()>(Decimal256::from_ratio(u256(&a), u256(&b)).atomics().to_string()), |_| E_OTHER)),
            1 => { // Uint256 * Decimal256 (atomics b)
                (format!("(1, {}, {}, 0)", a, b), run_catch(|| Ok::<_, ()>((u256(&a) * Decimal256::new(u256(&b))).to_string()), |_| E_OTHER)) }
            2 => (format!("(2, {}, {}, 0)", a128, b128), run_catch(|| Ok::<_, ()>((Uint128::new(a128) * Decimal::new(Uint128::new(b128))).to_string()), |_| E_OTHER)),
            3 => (format!("(3, {}, 0, 0)", b128), run_catch(|| Decimal::new(Uint128::new(b128)).inv().map(|d| d.atomics().to_string()).ok_or(()), |_| E_OTHER)),
            4 => (format!("(4, {}, {}, 0)", a, b), run_catch(|| Ok::<_, ()>((Decimal256::new(u256(&a)) * Decimal256::new(u256(&b))).atomics().to_string()), |_| E_OTHER)),
            5 => (format!("(5, {}, 0, 0)", a), run_catch(|| Ok::<_, ()>(u256(&a).isqrt().to_string()), |_| E_OTHER)),
            _ => (format!("(6, {}, {}, {})", a128, b128, c128), run_catch(|| Ok::<_, ()>(Uint128::new(a128).multiply_ratio(b128, c128).to_string()), |_| E_OTHER)),
        };
        out.count(&format!("prim:op{}:{}", op, match &o { Outcome::Ok(_) => "ok", Outcome::Err(_) => "err", Outcome::Panic(_) => "panic" }));
        let replay = json!({"kind": "cosmwasm_std_primitive", "op": op, "input": input});
        out.case("prim", &input, &obs(&o, |v| vec![v.clone()]), replay);
    }
}
