//! C09 — fee distributor ledgers: NewEpoch (fees forwarded by the real fee_collector) / Claim (shares from the real
//! whale_lair) / grace-period changes, interleaved with bonds and unbonds of 3 bonders. Model: Distributor.v.
use crate::common::*;
use crate::w_epochs::*;
use crate::world::*;
use cosmwasm_std::{coin, Addr};
use cw_multi_test::Executor;
use serde_json::{json, Value};
use white_whale_std::fee_distributor as fd;

const U: [&str; 3] = ["alice", "bob", "carol"];
const BD: [&str; 2] = ["uatom", "ubtc"];
const DIST: &str = "uwhale";

#[derive(Clone, Debug)]
pub enum Ev {
    Bond { who: usize, denom: usize, amount: u128 },
    Unbond { who: usize, denom: usize, amount: u128 },
    NewEpoch { sender: usize, fee: u128, collector_ok: bool },
    Claim { who: usize },
    SetGrace { admin: bool, g: u64 },
    Stray { amount: u128 },
    /// NewEpoch sent by the donor with `attach` of the distribution asset attached to the message (the coins belong to no epoch)
    NewEpochWith { fee: u128, attach: u128 },                             // a plain bank transfer of the distribution asset to the DISTRIBUTOR (belongs to no epoch)
}
fn ev_json(t: u64, e: &Ev) -> Value {
    match e {
        Ev::Bond { who, denom, amount } => json!({"t": t.to_string(), "op": "bond", "who": who, "denom": denom, "amount": amount.to_string()}),
        Ev::Unbond { who, denom, amount } => json!({"t": t.to_string(), "op": "unbond", "who": who, "denom": denom, "amount": amount.to_string()}),
        Ev::NewEpoch { sender, fee, collector_ok } => json!({"t": t.to_string(), "op": "new_epoch", "sender": sender, "fee": fee.to_string(), "collector_ok": collector_ok}),
        Ev::Claim { who } => json!({"t": t.to_string(), "op": "claim", "who": who}),
        Ev::SetGrace { admin, g } => json!({"t": t.to_string(), "op": "set_grace", "admin": admin, "g": g}),
        Ev::Stray { amount } => json!({"t": t.to_string(), "op": "transfer_to_distributor", "amount": amount.to_string()}),
        Ev::NewEpochWith { fee, attach } => json!({"t": t.to_string(), "op": "new_epoch_with_funds", "fee": fee.to_string(), "attached": attach.to_string()}),
    }
}
fn p128(v: &Value) -> u128 { v.as_str().and_then(|s| s.parse().ok()).unwrap_or(0) }
fn ev_from_json(v: &Value) -> Option<(u64, Ev)> {
    let t: u64 = v["t"].as_str()?.parse().ok()?;
    let us = |k: &str| v[k].as_u64().unwrap_or(0) as usize;
    Some((t, match v["op"].as_str()? {
        "bond" => Ev::Bond { who: us("who"), denom: us("denom"), amount: p128(&v["amount"]) },
        "unbond" => Ev::Unbond { who: us("who"), denom: us("denom"), amount: p128(&v["amount"]) },
        "new_epoch" => Ev::NewEpoch { sender: us("sender"), fee: p128(&v["fee"]), collector_ok: v["collector_ok"].as_bool().unwrap_or(true) },
        "claim" => Ev::Claim { who: us("who") },
        "set_grace" => Ev::SetGrace { admin: v["admin"].as_bool().unwrap_or(true), g: v["g"].as_u64().unwrap_or(1) },
        "transfer_to_distributor" => Ev::Stray { amount: p128(&v["amount"]) },
        "new_epoch_with_funds" => Ev::NewEpochWith { fee: p128(&v["fee"]), attach: p128(&v["attached"]) },
        _ => return None,
    }))
}

/// Vec<Asset> of the single distribution asset -> -1 (empty) / amount ; -2 = anything else (never expected)
fn enc(assets: &[white_whale_std::pool_network::asset::Asset]) -> i128 {
    match assets.len() { 0 => -1, 1 => asset_amount(assets, DIST) as i128, _ => -2 }
}
fn amt(assets: &[white_whale_std::pool_network::asset::Asset]) -> u128 { asset_amount(assets, DIST) }

#[derive(Clone, PartialEq, Debug)]
struct Snap { epochs: Vec<(u64, u64, i128, i128, i128)>, bal: u128, grace: u64, cursors: [i128; 3] }

fn cursor(w: &EpochWorld, who: &str) -> i128 {
    // raw read of LAST_CLAIMED_EPOCH: Map<&Addr, Uint64> under namespace "last_claimed_epoch"
    let ns = b"last_claimed_epoch";
    let mut key: Vec<u8> = vec![0, ns.len() as u8];
    key.extend_from_slice(ns);
    key.extend_from_slice(who.as_bytes());
    match w.app.wrap().query_wasm_raw(w.distributor.to_string(), key) {
        Ok(Some(v)) => String::from_utf8_lossy(&v).trim_matches('"').parse::<i128>().unwrap_or(-3),
        _ => -1,
    }
}
fn snap(w: &EpochWorld) -> Snap {
    let cur = w.q_current_epoch().id.u64();
    let mut epochs = vec![];
    for id in (1..=cur).rev() {
        let e = w.q_epoch(id);
        epochs.push((e.id.u64(), e.start_time.nanos(), enc(&e.total), enc(&e.available), enc(&e.claimed)));
    }
    Snap { epochs, bal: w.bal(w.distributor.as_str(), DIST), grace: w.q_distributor_config().grace_period.u64(),
           cursors: [cursor(w, U[0]), cursor(w, U[1]), cursor(w, U[2])] }
}
fn snap_obs(s: &Snap) -> Vec<String> {
    let mut v = vec![s.bal.to_string(), s.grace.to_string(), s.cursors[0].to_string(), s.cursors[1].to_string(), s.cursors[2].to_string(), s.epochs.len().to_string()];
    for e in &s.epochs { v.push(e.0.to_string()); v.push(e.1.to_string()); v.push(e.2.to_string()); v.push(e.3.to_string()); v.push(e.4.to_string()); }
    v
}
fn nz(x: i128) -> u128 { if x < 0 { 0 } else { x as u128 } }

/// ledger predicates that must hold in every state
fn monitor_state(out: &mut Out, s: &Snap, replay: &Value) {
    out.monitor_evals += 1;
    let mut sum_av: u128 = 0;
    for (i, e) in s.epochs.iter().enumerate() {
        if e.3 >= 0 {
            if nz(e.4) + nz(e.3) != nz(e.2) { out.monitor_fail("C09", &format!("epoch {}: claimed {} + available {} != total {}", e.0, nz(e.4), nz(e.3), nz(e.2)), replay.clone()); }
            sum_av += nz(e.3);
        }
        if (i as u64) >= s.grace && e.3 != -1 {
            out.monitor_fail("C09", &format!("epoch {} left the grace window ({} epochs) but still holds available fees {}", e.0, s.grace, e.3), replay.clone());
        }
        if e.2 == -2 || e.3 == -2 || e.4 == -2 { out.monitor_fail("C09", "an epoch ledger holds more than one asset", replay.clone()); }
    }
    if s.bal < sum_av { out.monitor_fail("C09", &format!("the distributor holds {} but the epochs' available amounts sum to {}", s.bal, sum_av), replay.clone()); }
}

pub struct Exec {
    pub w: EpochWorld,
    pub terms: Vec<String>,
    pub obs: Vec<String>,
    pub history: Vec<Value>,
    pub paid: std::collections::BTreeSet<(usize, u64)>,
    pub n_epochs: u64, pub n_claims_paid: u64, pub n_rollover_nonzero: u64, pub grace_changes: u64,
    grace0: u64,
    pub strays: u128,
    pub fees_in: u128,
    pub paid_out: u128,
    pub probe_kind: Option<&'static str>,
}
impl Exec {
    pub fn new(grace: u64, growth: u128) -> Exec {
        let cfg = EpochCfg { grace_period: grace, growth_rate: growth, unbonding_period: 1_000, ..Default::default() };
        Exec { w: deploy_epoch_world(cfg).expect("deploy"), terms: vec![], obs: vec![], history: vec![], paid: Default::default(),
               n_epochs: 0, n_claims_paid: 0, n_rollover_nonzero: 0, grace_changes: 0, grace0: grace, strays: 0, fees_in: 0, paid_out: 0, probe_kind: None }
    }
    pub fn replay_json(&self) -> Value {
        if let Some(k) = self.probe_kind { return json!({"kind": k, "script": "two bonders; 270 epochs one day apart with fees 1000+k; claims every 40 epochs and after each of the last 20", "last_events": self.history}); }
        json!({"kind": "distributor_history", "grace_period": self.grace0, "growth_rate": self.w.cfg.growth_rate.to_string(), "users": U, "events": self.history})
    }
    pub fn exec(&mut self, out: &mut Out, t: u64, e: &Ev) {
        self.w.set_time(t);
        self.history.push(ev_json(t, e));
        let replay = self.replay_json();
        let classify = |e: &anyhow::Error| classify_text(&format!("{:#}", e));
        match e {
            Ev::Bond { who, denom, amount } => {
                let r = run_catch(|| self.w.bond(U[*who], asset_native(BD[*denom], *amount), &[coin(*amount, BD[*denom])]), classify);
                out.count(if matches!(r, Outcome::Ok(_)) { "env:bond_ok" } else { "env:bond_rejected" });
                return;
            }
            Ev::Unbond { who, denom, amount } => {
                let r = run_catch(|| self.w.unbond(U[*who], asset_native(BD[*denom], *amount), &[]), classify);
                out.count(if matches!(r, Outcome::Ok(_)) { "env:unbond_ok" } else { "env:unbond_rejected" });
                return;
            }
            _ => {}
        }
        let before = snap(&self.w);
        let (term, r, payout): (String, Outcome<()>, i128) = match e {
            Ev::NewEpoch { sender, fee, collector_ok } => {
                if *fee > 0 { let _ = self.w.feed_collector("donor", *fee); }
                let forwarded = self.w.bal(self.w.collector.as_str(), DIST);
                if !*collector_ok { self.point_collector(Some("nobody".into())); }
                // the error class of a failing ForwardFees submessage is the collector's, not the distributor's: compared as "other"
                let r = run_catch(|| self.w.new_epoch(["owner", "alice", "bob", "carol"][*sender % 4]).map(|_| ()), |_e| E_OTHER);
                if !*collector_ok { let d = self.w.distributor.to_string(); self.point_collector(Some(d)); }
                (format!("DNewEpoch {} {}", coqbool(*collector_ok), forwarded), r, 0)
            }
            Ev::Claim { who } => {
                let fb = match self.w.q_bonded(U[*who]) { Ok(b) if !b.bonded_assets.is_empty() => format!("(Some {})", b.first_bonded_epoch_id.u64()), _ => "None".to_string() };
                let mut shares: Vec<String> = vec![];
                for ep in self.w.q_claimable_epochs() {
                    let app = &self.w;
                    let sh = match std::panic::catch_unwind(std::panic::AssertUnwindSafe(|| {
                        app.app.wrap().query_wasm_smart::<white_whale_std::whale_lair::BondingWeightResponse>(&app.lair,
                            &white_whale_std::whale_lair::QueryMsg::Weight { address: U[*who].to_string(), timestamp: Some(ep.start_time), global_index: Some(ep.global_index.clone()) })
                    })) { Ok(Ok(r)) => format!("SOk {}", r.share.atomics()), Ok(Err(_)) => "SErr".to_string(), Err(_) => "SPanic".to_string() };
                    out.count(&format!("share:{}", &sh[..4.min(sh.len())]));
                    shares.push(format!("({}, {})", ep.id.u64(), sh));
                }
                let b0 = self.w.bal(U[*who], DIST);
                let r = run_catch(|| self.w.claim(U[*who]).map(|_| ()), classify);
                let b1 = self.w.bal(U[*who], DIST);
                (format!("DClaim {} {} {}", who, fb, coqlist(&shares)), r, b1 as i128 - b0 as i128)
            }
            Ev::SetGrace { admin, g } => {
                let r = run_catch(|| self.w.set_grace(if *admin { "owner" } else { "alice" }, *g).map(|_| ()), classify);
                (format!("DSetGrace {} {}", coqbool(*admin), g), r, 0)
            }
            Ev::NewEpochWith { fee, attach } => {
                if *fee > 0 { let _ = self.w.feed_collector("donor", *fee); }
                let forwarded = self.w.bal(self.w.collector.as_str(), DIST);
                let (d, a) = (self.w.distributor.clone(), *attach);
                let r = run_catch(|| self.w.app.execute_contract(Addr::unchecked("donor"), d.clone(), &fd::ExecuteMsg::NewEpoch {}, &[coin(a, DIST)]).map(|_| ()), |_e| E_OTHER);
                (format!("DNewEpochF true {} {}", forwarded, attach), r, 0)
            }
            Ev::Stray { amount } => {
                let (d, a) = (self.w.distributor.clone(), *amount);
                let r = run_catch(|| self.w.app.send_tokens(Addr::unchecked("donor"), d.clone(), &[coin(a, DIST)]).map(|_| ()), |_e| E_OTHER);
                (format!("DStray {}", amount), r, 0)
            }
            _ => unreachable!(),
        };
        let after = snap(&self.w);
        let ok = matches!(r, Outcome::Ok(_));
        // ---- property predicates on the implementation
        monitor_state(out, &after, &replay);
        if !ok {
            if after != before { out.monitor_fail("C09", "a rejected call changed the ledgers or the balance", replay.clone()); }
        } else {
            match e {
                Ev::NewEpoch { .. } | Ev::NewEpochWith { .. } => {
                    self.n_epochs += 1;
                    let attach = if let Ev::NewEpochWith { attach, .. } = e { *attach } else { 0 };
                    self.strays += attach;
                    if after.epochs.len() != before.epochs.len() + 1 || after.bal < before.bal + attach {
                        out.monitor_fail("C09", &format!("an accepted NewEpoch left {} stored epochs where there were {} (or the balance fell)", after.epochs.len(), before.epochs.len()), replay.clone());
                        return;
                    }
                    let fee = after.bal - before.bal - attach;
                    self.fees_in += fee;
                    let g = before.grace as usize;
                    let new = after.epochs[0];
                    // the expiring epoch = oldest of the last `grace` epochs (if that many exist)
                    let (rolled, exp_id) = if before.epochs.len() >= g && g > 0 { (nz(before.epochs[g - 1].3), Some(before.epochs[g - 1].0)) } else { (0, None) };
                    if rolled > 0 { self.n_rollover_nonzero += 1; }
                    if nz(new.2) != fee + rolled { out.monitor_fail("C09", &format!("new epoch total {} != forwarded {} + rolled over {}", nz(new.2), fee, rolled), replay.clone()); }
                    if new.3 != new.2 || new.4 != -1 { out.monitor_fail("C09", "new epoch does not start with available = total and nothing claimed", replay.clone()); }
                    for (i, old) in before.epochs.iter().enumerate() {
                        let now_e = after.epochs[i + 1];
                        if Some(old.0) == exp_id {
                            if now_e.3 != -1 || (now_e.0, now_e.1, now_e.2, now_e.4) != (old.0, old.1, old.2, old.4) { out.monitor_fail("C09", "the expiring epoch was not emptied exactly (or something else of it changed)", replay.clone()); }
                        } else if now_e != *old { out.monitor_fail("C09", "creating an epoch changed an epoch that is not the expiring one", replay.clone()); }
                    }
                }
                Ev::Claim { who } => {
                    if after.epochs.len() != before.epochs.len() { out.monitor_fail("C09", "a claim changed the number of stored epochs", replay.clone()); return; }
                    let mut d_av: i128 = 0; let mut d_cl: i128 = 0;
                    let old_cursor = before.cursors[*who];
                    for (i, old) in before.epochs.iter().enumerate() {
                        let n = after.epochs[i];
                        let da = nz(old.3) as i128 - nz(n.3) as i128;
                        d_av += da; d_cl += nz(n.4) as i128 - nz(old.4) as i128;
                        if da != 0 {
                            if (old.0 as i128) <= old_cursor { out.monitor_fail("C09", &format!("{} was paid for epoch {} at or below its claim cursor {}", U[*who], old.0, old_cursor), replay.clone()); }
                            if !self.paid.insert((*who, old.0)) { out.monitor_fail("C09", &format!("{} was paid twice for epoch {}", U[*who], old.0), replay.clone()); }
                            if (i as u64) >= before.grace { out.monitor_fail("C09", "an epoch outside the grace window was paid", replay.clone()); }
                        }
                        if (n.0, n.1, n.2) != (old.0, old.1, old.2) { out.monitor_fail("C09", "a claim changed an epoch's id, start or total", replay.clone()); }
                    }
                    if payout != d_av || payout != d_cl || payout != before.bal as i128 - after.bal as i128 {
                        out.monitor_fail("C09", &format!("payout {} != decrease of available {} / increase of claimed {} / decrease of the balance {}", payout, d_av, d_cl, before.bal as i128 - after.bal as i128), replay.clone());
                    }
                    if after.cursors[*who] <= old_cursor { out.monitor_fail("C09", "an accepted claim did not advance the claim cursor", replay.clone()); }
                    if payout > 0 { self.n_claims_paid += 1; self.paid_out += payout as u128; }
                }
                Ev::Stray { amount } => {
                    self.strays += *amount;
                    if after.bal != before.bal + *amount || after.epochs != before.epochs || after.cursors != before.cursors || after.grace != before.grace {
                        out.monitor_fail("C09", "a plain transfer to the distributor changed more than its balance", replay.clone());
                    }
                }
                Ev::SetGrace { .. } => { if after.grace < before.grace { out.monitor_fail("C09", "the grace period decreased", replay.clone()); } if after.grace != before.grace { self.grace_changes += 1; } }
                _ => {}
            }
        }
        // the balance is EXACTLY the available ledgers plus what plain transfers added (Coq: C09_distributor_solvent)
        { let sum_av: u128 = after.epochs.iter().map(|e| nz(e.3)).sum();
          out.monitor_evals += 1;
          if after.bal != sum_av + self.strays { out.monitor_fail("C09", &format!("the distributor holds {} but the available amounts sum to {} and plain transfers added {}", after.bal, sum_av, self.strays), replay.clone()); } }
        // claim cursors (Coq: C09_cursors): a cursor names a stored epoch and never moves back, whatever the call and its outcome
        { out.monitor_evals += 1;
          for i in 0..3 {
              if after.cursors[i] < before.cursors[i] { out.monitor_fail("C09", &format!("the claim cursor of {} moved back from {} to {}", U[i], before.cursors[i], after.cursors[i]), replay.clone()); }
              if after.cursors[i] > after.epochs.len() as i128 || after.cursors[i] == 0 { out.monitor_fail("C09", &format!("the claim cursor of {} is {} but {} epochs are stored", U[i], after.cursors[i], after.epochs.len()), replay.clone()); }
          } }
        // whole-history conservation (Coq: C09_conservation): every unit ever forwarded is still available in some epoch or recorded as
        // claimed in some epoch, and the claimed ledgers sum to exactly what claimers were paid
        { let sum_av: u128 = after.epochs.iter().map(|e| nz(e.3)).sum();
          let sum_cl: u128 = after.epochs.iter().map(|e| nz(e.4)).sum();
          out.monitor_evals += 1;
          if sum_cl != self.paid_out { out.monitor_fail("C09", &format!("the epochs' claimed ledgers sum to {} but claimers were paid {} over the history", sum_cl, self.paid_out), replay.clone()); }
          if self.fees_in != sum_av + sum_cl { out.monitor_fail("C09", &format!("the collector forwarded {} over the history but the epochs account for available {} + claimed {}", self.fees_in, sum_av, sum_cl), replay.clone()); } }
        let kind = match e { Ev::NewEpoch { .. } => "new_epoch", Ev::NewEpochWith { .. } => "new_epoch_with_funds", Ev::Claim { .. } => "claim", Ev::Stray { .. } => "env:transfer_to_distributor", _ => "set_grace" };
        out.count(&format!("{}:{}", kind, match &r { Outcome::Ok(_) => if payout > 0 { "ok_paid" } else { "ok" }, Outcome::Err(_) => "err", Outcome::Panic(_) => "panic" }));
        self.terms.push(format!("({}, {})", t, term));
        let mut o = obs(&r, |_| vec![]);
        o.push(payout.to_string());
        o.extend(snap_obs(&after));
        self.obs.extend(o);
    }
    fn point_collector(&mut self, to: Option<String>) {
        let (c, o) = (self.w.collector.clone(), Addr::unchecked(OWNER));
        use cw_multi_test::Executor;
        self.w.app.execute_contract(o, c, &white_whale_std::fee_collector::ExecuteMsg::UpdateConfig { owner: None, pool_router: None,
            fee_distributor: to, pool_factory: None, vault_factory: None, take_rate: None, take_rate_dao_address: None, is_take_rate_active: None }, &[]).unwrap();
    }
    pub fn emit(self, out: &mut Out) {
        let input = format!("(({}, {}, {}), {})", self.w.cfg.duration, self.w.cfg.genesis, self.grace0, coqlist(&self.terms));
        let replay = self.replay_json();
        if self.n_epochs >= self.grace0 + 2 && self.n_claims_paid >= 2 && self.n_rollover_nonzero >= 1 { out.nontrivial_key(hash_str(&input)); }
        if self.grace_changes > 0 { out.count("history:with_grace_increase"); }
        out.sample(replay.clone());
        out.case("c09", &input, &self.obs, replay);
    }
}

fn corpus(out: &mut Out) {
    let t0 = GENESIS_DEFAULT;
    let d = DAY_NS;
    let s = 1_000_000_000u64;
    let hs: Vec<(u64, u128, Vec<(u64, Ev)>)> = vec![
        // grace 2: bonds, epochs with fees, partial claims, expiry roll-over, double claim attempt, never-bonded claimer
        (2, DEC_ONE, vec![
            (t0, Ev::Bond { who: 0, denom: 0, amount: 1_000 }),
            (t0, Ev::Bond { who: 1, denom: 1, amount: 3_000 }),
            (t0, Ev::NewEpoch { sender: 1, fee: 10_000, collector_ok: true }),
            (t0 + s, Ev::Claim { who: 2 }),
            (t0 + d, Ev::NewEpoch { sender: 2, fee: 7_777, collector_ok: true }),
            (t0 + d + s, Ev::Claim { who: 0 }),
            (t0 + d + s, Ev::Claim { who: 0 }),
            (t0 + 2 * d, Ev::NewEpoch { sender: 0, fee: 0, collector_ok: true }),
            (t0 + 2 * d + s, Ev::Claim { who: 1 }),
            (t0 + 2 * d + s, Ev::Stray { amount: 1_000 }),
            (t0 + 2 * d + s, Ev::Stray { amount: 0 }),
            (t0 + 3 * d, Ev::NewEpoch { sender: 0, fee: 5, collector_ok: true }),
            (t0 + 3 * d + s, Ev::SetGrace { admin: true, g: 4 }),
            (t0 + 3 * d + s, Ev::SetGrace { admin: true, g: 3 }),
            (t0 + 3 * d + s, Ev::SetGrace { admin: false, g: 5 }),
            (t0 + 4 * d, Ev::NewEpoch { sender: 0, fee: 1_000_003, collector_ok: true }),
            (t0 + 4 * d + s, Ev::Claim { who: 0 }),
            (t0 + 4 * d + s, Ev::Bond { who: 2, denom: 0, amount: 500 }),
            (t0 + 5 * d, Ev::NewEpoch { sender: 0, fee: 99, collector_ok: false }),
            (t0 + 5 * d, Ev::NewEpoch { sender: 0, fee: 0, collector_ok: true }),
            (t0 + 5 * d + s, Ev::Claim { who: 2 }),
            (t0 + 5 * d + s, Ev::Claim { who: 1 }),
            (t0 + 6 * d, Ev::NewEpoch { sender: 3, fee: 12, collector_ok: true }),
            (t0 + 7 * d, Ev::NewEpoch { sender: 3, fee: 0, collector_ok: true }),
            (t0 + 8 * d, Ev::NewEpoch { sender: 3, fee: 0, collector_ok: true }),
            (t0 + 8 * d + s, Ev::Claim { who: 0 }),
        ]),
        // grace 1, epochs before anybody bonded (global weight 0), unbond changes shares
        (1, DEC_ONE / 2, vec![
            (t0, Ev::NewEpoch { sender: 1, fee: 1_000, collector_ok: true }),
            (t0 + s, Ev::Bond { who: 0, denom: 0, amount: 10 }),
            (t0 + s, Ev::Claim { who: 0 }),
            (t0 + d, Ev::NewEpoch { sender: 1, fee: 2_000, collector_ok: true }),
            (t0 + d + s, Ev::Bond { who: 1, denom: 0, amount: 30 }),
            (t0 + d + s, Ev::Claim { who: 1 }),
            (t0 + 2 * d, Ev::NewEpoch { sender: 1, fee: 3_000, collector_ok: true }),
            (t0 + 2 * d + s, Ev::Claim { who: 1 }),
            (t0 + 2 * d + s, Ev::Unbond { who: 1, denom: 0, amount: 29 }),
            (t0 + 2 * d + s, Ev::Claim { who: 0 }),
            (t0 + 3 * d, Ev::NewEpoch { sender: 1, fee: 1, collector_ok: true }),
            (t0 + 3 * d + s, Ev::Claim { who: 0 }),
            (t0 + 3 * d + s, Ev::Claim { who: 1 }),
            (t0 + 4 * d, Ev::NewEpochWith { fee: 100_000, attach: 50_000 }),
            (t0 + 4 * d, Ev::NewEpochWith { fee: 0, attach: 7 }),                 // early: refused, the coins stay with the sender
            (t0 + 5 * d, Ev::NewEpoch { sender: 1, fee: 100_000, collector_ok: true }),
            (t0 + 5 * d + s, Ev::Claim { who: 0 }),
            (t0 + 6 * d, Ev::NewEpoch { sender: 1, fee: 0, collector_ok: true }),
            (t0 + 6 * d + s, Ev::Claim { who: 1 }),
        ]),
    ];
    for (grace, growth, evs) in hs {
        let mut x = Exec::new(grace, growth);
        for (t, e) in &evs { x.exec(out, *t, e); }
        out.count("history:corpus");
        x.emit(out);
    }
}

fn gen_history(out: &mut Out, rng: &mut Rng, transfers: bool) {
    let grace = 1 + rng.below(5);
    let growth: u128 = *rng.pick(&[0u128, 1, DEC_ONE / 2, DEC_ONE, DEC_ONE]);
    let mut x = Exec::new(grace, growth);
    let d = DAY_NS;
    let mut t = GENESIS_DEFAULT;
    let big = rng.chance(1, 6);
    // some initial bonds
    for u in 0..3 { if rng.chance(3, 4) { let a = if big { magnitude(rng, 100) } else { 1 + rng.below128(1_000_000) }; x.exec(out, t, &Ev::Bond { who: u, denom: rng.below(2) as usize, amount: a }); } }
    let target_epochs = grace + 2 + rng.below(6);
    let mut made = 0u64;
    let mut steps = 0;
    let mut cur_grace = grace;
    while made < target_epochs && steps < 80 {
        steps += 1;
        if transfers && rng.chance(1, 9) {
            // the next epoch, created by a message that carries coins
            t = (GENESIS_DEFAULT + made * d).max(t);
            let before = x.w.q_current_epoch().id.u64();
            x.exec(out, t, &Ev::NewEpochWith { fee: match rng.below(3) { 0 => 0, _ => magnitude(rng, 50) }, attach: match rng.below(3) { 0 => 1, 1 => 50_000, _ => magnitude(rng, 50) } });
            if x.w.q_current_epoch().id.u64() > before { made += 1; }
            continue;
        }
        if transfers && rng.chance(1, 6) {
            t += 1;
            x.exec(out, t, &Ev::Stray { amount: match rng.below(4) { 0 => 0, 1 => 1, 2 => 1 + rng.below128(1_000_000), _ => magnitude(rng, 60) } });
            continue;
        }
        match rng.below(12) {
            0..=3 => {
                // the next epoch: usually right at / after the boundary, sometimes early
                let early = rng.chance(1, 8);
                if !early { t = (GENESIS_DEFAULT + made * d).max(t) + if rng.chance(1, 3) { rng.below(d / 2) } else { 0 }; }
                let fee = match rng.below(6) { 0 => 0, 1 => 1 + rng.below128(1_000), _ => if big { magnitude(rng, 110) } else { magnitude(rng, 50) } };
                let ok = !rng.chance(1, 10);
                let before = x.w.q_current_epoch().id.u64();
                x.exec(out, t, &Ev::NewEpoch { sender: rng.below(4) as usize, fee, collector_ok: ok });
                if x.w.q_current_epoch().id.u64() > before { made += 1; }
            }
            4..=7 => { t += rng.below(1_000_000_000); x.exec(out, t, &Ev::Claim { who: rng.below(3) as usize }); }
            8 => { t += 1; let who = rng.below(3) as usize; x.exec(out, t, &Ev::Bond { who, denom: rng.below(2) as usize, amount: if big { magnitude(rng, 100) } else { 1 + rng.below128(1_000_000) } }); }
            9 => {
                t += 1;
                let who = rng.below(3) as usize; let dn = rng.below(2) as usize;
                let b = x.w.q_bonded(U[who]).map(|r| asset_amount(&r.bonded_assets, BD[dn])).unwrap_or(0);
                if b > 0 { x.exec(out, t, &Ev::Unbond { who, denom: dn, amount: if rng.chance(1, 3) { b } else { 1 + rng.below128(b) } }); }
            }
            _ => {
                let g = match rng.below(6) { 0 => cur_grace.saturating_sub(1), 1 => 0, 2 => 31, _ => cur_grace + rng.below(3) };
                let admin = !rng.chance(1, 6);
                x.exec(out, t, &Ev::SetGrace { admin, g });
                cur_grace = x.w.q_distributor_config().grace_period.u64();
            }
        }
    }
    // everyone tries to claim at the end; then twice more epochs to let the last ones expire
    for u in 0..3 { t += 1; x.exec(out, t, &Ev::Claim { who: u }); }
    out.count(&format!("history:grace_{}", grace));
    if transfers { out.count("history:with_plain_transfers_to_the_distributor"); }
    x.emit(out);
}

fn replay(args: &Args, path: &str) {
    let text = std::fs::read_to_string(path).or_else(|_| std::fs::read_to_string(format!("../{}", path))).expect("replay file");
    let v: Value = serde_json::from_str(&text).expect("json");
    let f = if v.get("failing_input").is_some() { v["failing_input"].clone() } else { v.clone() };
    let grace = f["grace_period"].as_u64().unwrap_or(2);
    let growth: u128 = f["growth_rate"].as_str().and_then(|s| s.parse().ok()).unwrap_or(DEC_ONE);
    let mut out = Out::new(&args.out);
    let mut x = Exec::new(grace, growth);
    for ev in f["events"].as_array().cloned().unwrap_or_default() {
        if let Some((t, e)) = ev_from_json(&ev) {
            let before = out.monitor_failures.len();
            x.exec(&mut out, t, &e);
            let s = snap(&x.w);
            println!("t={} {:?} -> balance {} epochs(id,start,total,available,claimed) {:?} cursors {:?} monitor_failures+{}", t, e, s.bal, s.epochs, s.cursors, out.monitor_failures.len() - before);
        }
    }
    let n = out.monitor_failures.len();
    for m in &out.monitor_failures { println!("PROPERTY FALSE: {}", m["what"]); }
    out.finish();
    std::process::exit(if n > 0 { 1 } else { 0 });
}

pub fn run(args: &Args) {
    if let Some(p) = &args.replay {
        let k = replay_kind(p);
        if k == "long_run_probe" { let mut o = Out::new(&args.out); replay_probe(&mut o, &mut |o| long_run_probe(o)); }
        if k == "migration_probe" { let mut o = Out::new(&args.out); replay_probe(&mut o, &mut |o| migration_probe(o)); }
        if k == "distributor_distribution_asset_change" { let mut o = Out::new(&args.out); replay_probe(&mut o, &mut |o| distribution_asset_change_probe(o)); }
        replay(args, p); return;
    }
    let mut out = Out::new(&args.out);
    out.rule = "a history = bonds/unbonds of 3 bonders interleaved with NewEpoch (fees forwarded by the real collector, incl. zero and a collector fault), Claim and \
                grace-period changes (increase, decrease, out of range, non-owner) until >= grace+2 epochs exist; non-trivial = >= grace+2 epochs created, \
                >= 2 claims that paid something and >= 1 non-zero roll-over of an expiring epoch; distinct = by hash of the model input".into();
    let mut rng = Rng::new(args.seed);
    corpus(&mut out);
    migration_probe(&mut out);
    distribution_asset_change_probe(&mut out);
    long_run_probe(&mut out);
    for _ in 0..args.n { gen_history(&mut out, &mut rng, false); }
    // histories in which anybody also sends the distribution asset straight to the distributor (own generator state: the histories above stay what they were)
    let mut rng2 = Rng::new(args.seed ^ 0x5742_4159);
    for _ in 0..(args.n / 4).max(10) { gen_history(&mut out, &mut rng2, true); }
    out.finish();
}


/// 270 epochs in a row (ids pass 255 -> 256: one byte of the storage key is no longer enough), a bonder claiming now and then. The
/// history is judged by the monitors only (its model term would be quadratic in size): every accepted NewEpoch adds exactly one stored
/// epoch, the ledger identities and the balance identity hold after every call.
fn long_run_probe(out: &mut Out) {
    let (t0, d, s) = (GENESIS_DEFAULT, DAY_NS, 1_000_000_000u64);
    let mut x = Exec::new(2, DEC_ONE);
    x.probe_kind = Some("long_run_probe");
    x.exec(out, t0, &Ev::Bond { who: 0, denom: 0, amount: 1_000 });
    x.exec(out, t0, &Ev::Bond { who: 1, denom: 1, amount: 3_000 });
    for k in 0..270u64 {
        let before = out.monitor_failures.len();
        x.exec(out, t0 + k * d, &Ev::NewEpoch { sender: (k % 4) as usize, fee: 1_000 + k as u128, collector_ok: true });
        if k % 40 == 39 || k >= 250 { x.exec(out, t0 + k * d + s, &Ev::Claim { who: (k % 2) as usize }); }
        if out.monitor_failures.len() > before { break; }
        x.history.clear();        // the replay of this probe is the probe itself
    }
    out.count("probe:long_run_270_epochs");
}

/// four funded epochs (grace 3), one partly claimed; the clock is then several days past the end of the current epoch (epoch creation
/// lags). `migrate` on a copy of the distributor's storage one patch version back (migr.rs): the epochs it reports stay what they were.
fn migration_probe(out: &mut Out) {
    let (t0, d, s) = (GENESIS_DEFAULT, DAY_NS, 1_000_000_000u64);
    let mut x = Exec::new(3, DEC_ONE);
    let mut scratch = Out::new(&format!("{}/scratch_migr", out.dir));
    for (t, e) in [
        (t0, Ev::Bond { who: 0, denom: 0, amount: 1_000 }),
        (t0, Ev::Bond { who: 1, denom: 1, amount: 3_000 }),
        (t0, Ev::NewEpoch { sender: 1, fee: 10_000, collector_ok: true }),
        (t0 + d, Ev::NewEpoch { sender: 2, fee: 7_777, collector_ok: true }),
        (t0 + d + s, Ev::Claim { who: 0 }),
        (t0 + 2 * d, Ev::NewEpoch { sender: 0, fee: 123_456, collector_ok: true }),
        (t0 + 3 * d, Ev::NewEpoch { sender: 0, fee: 5, collector_ok: true }),
    ] { x.exec(&mut scratch, t, &e); }
    let dump = x.w.app.dump_wasm_raw(&x.w.distributor);
    let b = x.w.app.block_info();
    // at the current block, and with epoch creation several days overdue
    crate::migr::probe_distributor(out, &dump, b.time, b.height);
    crate::migr::probe_distributor(out, &dump, b.time.plus_nanos(5 * d + 17), b.height + 80_000);
}

/// The owner changes the distribution asset while an epoch inside the grace window still holds unclaimed fees of the previous asset.
/// When that epoch leaves the window its remainder is rolled into the epoch created then - in whatever asset it is - so that at all
/// times the distributor's balance of an asset equals the sum of what its epochs still hold of it. (Monitor only: the distributor
/// machine has one distribution asset.)
fn distribution_asset_change_probe(out: &mut Out) {
    use cw_multi_test::Executor;
    let (t0, d) = (GENESIS_DEFAULT, DAY_NS);
    for grace in [1u64, 2] {
        let mut x = Exec::new(grace, DEC_ONE);
        let mut scratch = Out::new(&format!("{}/scratch_dist", out.dir));
        x.exec(&mut scratch, t0, &Ev::Bond { who: 0, denom: 0, amount: 1_000 });
        x.exec(&mut scratch, t0, &Ev::NewEpoch { sender: 1, fee: 10_000, collector_ok: true });
        let owner = Addr::unchecked(OWNER);
        let dist = x.w.distributor.clone();
        let r = x.w.app.execute_contract(owner, dist.clone(), &fd::ExecuteMsg::UpdateConfig { owner: None, bonding_contract_addr: None, fee_collector_addr: None,
            grace_period: None, distribution_asset: Some(native("uusdc")), epoch_config: None }, &[]);
        if r.is_err() { out.count("dist_asset_change:update_rejected"); continue; }
        let replay = json!({"kind": "distributor_distribution_asset_change", "grace_period": grace,
            "script": "bond; NewEpoch with 10000 uwhale; UpdateConfig{distribution_asset: uusdc}; NewEpoch every day until the first epoch has left the grace window"});
        for k in 1..=(grace + 2) {
            x.w.set_time(t0 + k * d);
            let r = x.w.new_epoch(U[1]);
            out.monitor_evals += 1;
            if r.is_err() { out.count("dist_asset_change:new_epoch_rejected"); continue; }
            out.count("dist_asset_change:new_epoch_created");
            let cur = x.w.q_current_epoch().id.u64();
            let held: u128 = (1..=cur).map(|id| asset_amount(&x.w.q_epoch(id).available, DIST)).sum();
            let bal = x.w.bal(dist.as_str(), DIST);
            if held != bal {
                out.monitor_fail("C09", &format!("after epoch {} was created the distributor holds {} {} but its epochs account for {}", cur, bal, DIST, held), replay.clone());
            }
        }
    }
    // claims across the change: an epoch funded in uwhale is still inside the grace window when the asset becomes uusdc and an epoch funded in
    // uusdc follows; a bonder then claims both (before anything is rolled over): per asset, what she is paid is the fall of the epochs'
    // available amounts, and the distributor still holds what its epochs account for
    {
        let mut x = Exec::new(3, DEC_ONE);
        let mut scratch = Out::new(&format!("{}/scratch_dist", out.dir));
        x.exec(&mut scratch, t0, &Ev::Bond { who: 0, denom: 0, amount: 1_000 });
        x.exec(&mut scratch, t0, &Ev::Bond { who: 1, denom: 1, amount: 2_000 });
        x.exec(&mut scratch, t0, &Ev::NewEpoch { sender: 1, fee: 0, collector_ok: true });          // the bonders' weight starts to count
        x.exec(&mut scratch, t0 + d, &Ev::NewEpoch { sender: 1, fee: 900_000, collector_ok: true });
        let (owner, dist, coll) = (Addr::unchecked(OWNER), x.w.distributor.clone(), x.w.collector.clone());
        let replay = json!({"kind": "distributor_distribution_asset_change", "grace_period": 3,
            "script": "two bonders; an empty epoch; a day later NewEpoch with 900000 uwhale; UpdateConfig{distribution_asset: uusdc}; 600000 uusdc reach the collector; NewEpoch; alice claims both epochs"});
        let r = x.w.app.execute_contract(owner, dist.clone(), &fd::ExecuteMsg::UpdateConfig { owner: None, bonding_contract_addr: None, fee_collector_addr: None,
            grace_period: None, distribution_asset: Some(native("uusdc")), epoch_config: None }, &[]);
        let fed = x.w.app.send_tokens(Addr::unchecked("donor"), coll, &[coin(600_000, "uusdc")]);
        x.w.set_time(t0 + 2 * d);
        if r.is_ok() && fed.is_ok() && x.w.new_epoch(U[1]).is_ok() {
            let cur = x.w.q_current_epoch().id.u64();
            let avail = |x: &Exec, a: &str| -> u128 { (1..=cur).map(|id| asset_amount(&x.w.q_epoch(id).available, a)).sum() };
            let before: Vec<(u128, u128)> = ["uwhale", "uusdc"].iter().map(|a| (avail(&x, a), x.w.bal(U[0], a))).collect();
            x.w.set_time(t0 + 2 * d + 1_000_000_000);
            let claimed = x.w.claim(U[0]).is_ok();
            out.monitor_evals += 1;
            out.count(if claimed { "dist_asset_change:claim_ok" } else { "dist_asset_change:claim_rejected" });
            for (i, a) in ["uwhale", "uusdc"].iter().enumerate() {
                let (av1, b1) = (avail(&x, a), x.w.bal(U[0], a));
                let (fall, paid) = (before[i].0 as i128 - av1 as i128, b1 as i128 - before[i].1 as i128);
                if std::env::var("WWVERIF_DEBUG").is_ok() { eprintln!("asset-change claim: {} available before {} fell {} paid {}", a, before[i].0, fall, paid); }
                if fall != paid { out.monitor_fail("C09", &format!("a claim across a change of the distribution asset: the epochs' available {} fell by {} but the claimer was paid {}", a, fall, paid), replay.clone()); }
                if x.w.bal(dist.as_str(), a) < av1 { out.monitor_fail("C09", &format!("after the claim the distributor holds {} {} but its epochs account for {}", x.w.bal(dist.as_str(), a), a, av1), replay.clone()); }
            }
        } else { out.count("dist_asset_change:claims_part_not_reached"); }
    }
}
