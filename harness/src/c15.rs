//! C15 — slippage limits: pure assert_max_spread / tolerance grids around every threshold, pair histories biased to
//! spreads / belief prices / tolerances, router minimum_receive around the actual outcome
use crate::common::*;
use crate::pairhist::*;
use cosmwasm_std::{Decimal, Uint128};
use serde_json::json;
use white_whale_std::pool_network::swap::assert_max_spread;

fn d(x: u128) -> Decimal { Decimal::new(Uint128::new(x)) }

pub fn run(args: &Args) {
    let mut out = Out::new(&args.out);
    out.rule = "pure: assert_max_spread on dense grids around each threshold (s*(ret+spread) +-{0,1}), max_spread in {None,0,1e-18,0.01,0.5,0.5+eps,1,2}, belief prices around offer/ret; \
                pair histories biased to max_spread / belief_price / slippage_tolerance; router minimum_receive at the unconstrained outcome +-1; \
                non-trivial = a case on or adjacent to a threshold (pure) or a history with >= 3 successful op kinds or a >=2-hop router case; distinct by hash".into();
    let mut rng = Rng::new(args.seed);
    // pure stream
    let spreads: [Option<u128>; 9] = [None, Some(0), Some(1), Some(DEC / 100), Some(DEC / 10), Some(DEC / 2), Some(DEC / 2 + 1), Some(DEC), Some(2 * DEC)];
    for k in 0..(args.n * 8) {
        let ms = *rng.pick(&spreads);
        let s_eff = ms.unwrap_or(DEC / 100).min(DEC / 2);
        let total = magnitude(&mut rng, 120).max(2);
        // spread at the threshold: floor(s_eff*total/DEC) +- {0,1}
        let thr = (cosmwasm_std::Uint256::from(s_eff) * cosmwasm_std::Uint256::from(total) / cosmwasm_std::Uint256::from(DEC)).to_string().parse::<u128>().unwrap_or(0);
        let spread = match rng.below(5) { 0 => thr, 1 => thr + 1, 2 => thr.saturating_sub(1), 3 => rng.below128(total), _ => thr + 2 }.min(total);
        let ret = total - spread;
        let offer = magnitude(&mut rng, 120);
        let belief = if k % 3 == 0 {
            // belief price near offer/ret
            let p = if ret > 0 { (cosmwasm_std::Uint256::from(offer) * cosmwasm_std::Uint256::from(DEC) / cosmwasm_std::Uint256::from(ret)).to_string().parse::<u128>().unwrap_or(DEC) } else { DEC };
            Some(match rng.below(6) { 0 => 0, 1 => p, 2 => p + 1, 3 => p.saturating_sub(1).max(1), 4 => p / 2 + 1, _ => p.saturating_mul(2) })
        } else { None };
        let r = run_catch(|| assert_max_spread(belief.map(d), ms.map(d), Uint128::new(offer), Uint128::new(ret), Uint128::new(spread)),
                          |e: &cosmwasm_std::StdError| classify_text(&e.to_string()));
        let replay = json!({"kind": "assert_max_spread", "belief_price": belief.map(|b| b.to_string()), "max_spread": ms.map(|m| m.to_string()),
                            "offer": offer.to_string(), "return": ret.to_string(), "spread": spread.to_string()});
        // monitor (no belief): accepted <=> floor(spread*1e18/(ret+spread)) <= s_eff
        out.monitor_evals += 1;
        if belief.is_none() && ret + spread > 0 {
            let ratio = cosmwasm_std::Uint256::from(spread) * cosmwasm_std::Uint256::from(DEC) / cosmwasm_std::Uint256::from(ret + spread);
            let within = ratio <= cosmwasm_std::Uint256::from(s_eff);
            match &r {
                Outcome::Ok(_) => if !within { out.monitor_fail("C15", "max spread exceeded but accepted", replay.clone()); },
                Outcome::Err(_) => if within { out.monitor_fail("C15", "within max spread but rejected", replay.clone()); },
                Outcome::Panic(_) => out.monitor_fail("C15", "assert_max_spread aborted", replay.clone()),
            }
        }
        if spread.abs_diff(thr) <= 1 { out.nontrivial_key(hash64(&[offer, ret, spread, ms.unwrap_or(7), belief.unwrap_or(9)])); }
        out.count(&format!("pure:{}", match &r { Outcome::Ok(_) => "ok", Outcome::Err(c) if *c == E_SLIPPAGE => "slippage", Outcome::Err(_) => "err", Outcome::Panic(_) => "panic" }));
        if k < 2 { out.sample(replay.clone()); }
        let o = |x: &Option<u128>| match x { Some(v) => format!("(Some {})", v), None => "None".into() };
        out.case("maxspread", &format!("({}, {}, {}, {}, {})", o(&belief), o(&ms), offer, ret, spread), &obs(&r, |_| vec![]), replay);
    }
    let bias = Bias { tiny_swaps: false, spreads: true, toggles: false };
    for c in 0..args.n {
        let len = 5 + rng.below(25) as usize;
        let case = match std::panic::catch_unwind(std::panic::AssertUnwindSafe(|| gen_case(&mut rng, len, &bias))) { Ok(c) => c, Err(_) => { out.count("generator_panic"); continue } };
        let r = match run_case(&mut out, "C15", &case) { Some(r) => r, None => continue };
        if r.kinds_ok.len() >= 3 && r.had_remainder { out.nontrivial_key(hash_str(&case.coq())); }
        if c < 2 { out.sample(case.json()); }
        out.case("pairhist", &case.coq(), &r.obs, case.json());
    }
    crate::routerstream::run_stream(&mut out, "C15", &mut rng, args.n / 2);
    out.finish();
}
