//! C15 — slippage limits: pure assert_max_spread / tolerance grids around every threshold, pair histories biased to
//! spreads / belief prices / tolerances, router minimum_receive around the actual outcome
use crate::common::*;
use crate::pairhist::*;
use cosmwasm_std::{Decimal, Uint128};
use serde_json::json;
use white_whale_std::pool_network::swap::assert_max_spread;

fn d(x: u128) -> Decimal { Decimal::new(Uint128::new(x)) }

pub fn run(args: &Args) {
    // replay of a recorded pair history (router / pure cases are re-run by the generators with the recorded seed)
    if let Some(f) = &args.replay { std::process::exit(replay_file("C15", f, &format!("{}/scratch", args.out))); }
    let mut out = Out::new(&args.out);
    out.rule = "pure: assert_max_spread on dense grids around each threshold (s*(ret+spread) +-{0,1}), max_spread in {None,0,1e-18,0.01,0.5,0.5+eps,1,2}, belief prices around offer/ret; \
                pair histories biased to max_spread / belief_price / slippage_tolerance; router minimum_receive at the unconstrained outcome +-1; \
                non-trivial = a case on or adjacent to a threshold (pure) or a history with >= 3 successful op kinds or a >=2-hop router case; distinct by hash".into();
    let mut rng = Rng::new(args.seed);
    // pure stream
    let spreads: [Option<u128>; 9] = [None, Some(0), Some(1), Some(DEC / 100), Some(DEC / 10), Some(DEC / 2), Some(DEC / 2 + 1), Some(DEC), Some(2 * DEC)];
    for k in 0..(args.n * 8) {
        let ms = *rng.pick(&spreads);
        let s_eff = ms.unwrap_or(DEC / 100).min(DEC / 2);
        let total = magnitude(&mut rng, 120).max(2);
        // spread at the threshold: floor(s_eff*total/DEC) +- {0,1}
        let thr = (cosmwasm_std::Uint256::from(s_eff) * cosmwasm_std::Uint256::from(total) / cosmwasm_std::Uint256::from(DEC)).to_string().parse::<u128>().unwrap_or(0);
        let spread = match rng.below(5) { 0 => thr, 1 => thr + 1, 2 => thr.saturating_sub(1), 3 => rng.below128(total), _ => thr + 2 }.min(total);
        let ret = total - spread;
        let offer = magnitude(&mut rng, 120);
        let belief = if k % 3 == 0 {
            // belief price near offer/ret
            let p = if ret > 0 { (cosmwasm_std::Uint256::from(offer) * cosmwasm_std::Uint256::from(DEC) / cosmwasm_std::Uint256::from(ret)).to_string().parse::<u128>().unwrap_or(DEC) } else { DEC };
            Some(match rng.below(6) { 0 => 0, 1 => p, 2 => p + 1, 3 => p.saturating_sub(1).max(1), 4 => p / 2 + 1, _ => p.saturating_mul(2) })
        } else { None };
        let r = run_catch(|| assert_max_spread(belief.map(d), ms.map(d), Uint128::new(offer), Uint128::new(ret), Uint128::new(spread)),
                          |e: &cosmwasm_std::StdError| classify_text(&e.to_string()));
        let replay = json!({"kind": "assert_max_spread", "belief_price": belief.map(|b| b.to_string()), "max_spread": ms.map(|m| m.to_string()),
                            "offer": offer.to_string(), "return": ret.to_string(), "spread": spread.to_string()});
        // monitor (no belief): accepted <=> floor(spread*1e18/(ret+spread)) <= s_eff
        out.monitor_evals += 1;
        if belief.is_none() && ret + spread > 0 {
            let ratio = cosmwasm_std::Uint256::from(spread) * cosmwasm_std::Uint256::from(DEC) / cosmwasm_std::Uint256::from(ret + spread);
            let within = ratio <= cosmwasm_std::Uint256::from(s_eff);
            match &r {
                Outcome::Ok(_) => if !within { out.monitor_fail("C15", "max spread exceeded but accepted", replay.clone()); },
                Outcome::Err(_) => if within { out.monitor_fail("C15", "within max spread but rejected", replay.clone()); },
                Outcome::Panic(_) => out.monitor_fail("C15", "assert_max_spread aborted", replay.clone()),
            }
        }
        if spread.abs_diff(thr) <= 1 { out.nontrivial_key(hash64(&[offer, ret, spread, ms.unwrap_or(7), belief.unwrap_or(9)])); }
        out.count(&format!("pure:{}", match &r { Outcome::Ok(_) => "ok", Outcome::Err(c) if *c == E_SLIPPAGE => "slippage", Outcome::Err(_) => "err", Outcome::Panic(_) => "panic" }));
        if k < 2 { out.sample(replay.clone()); }
        let o = |x: &Option<u128>| match x { Some(v) => format!("(Some {})", v), None => "None".into() };
        out.case("maxspread", &format!("({}, {}, {}, {}, {})", o(&belief), o(&ms), offer, ret, spread), &obs(&r, |_| vec![]), replay);
    }
    // pure liquidity-tolerance stream through the hooks: constant-product pair, stableswap pair, three-asset pool
    {
        use white_whale_std::pool_network::asset::{Asset, AssetInfo, PairType};
        let tols: [Option<u128>; 8] = [None, Some(0), Some(1), Some(DEC / 100), Some(DEC / 2), Some(DEC), Some(DEC + 1), Some(2 * DEC)];
        let nat = |d: &str, a: u128| Asset { info: AssetInfo::NativeToken { denom: d.to_string() }, amount: Uint128::new(a) };
        for k in 0..(args.n * 6) {
            let kind = k % 3;
            let tol = *rng.pick(&tols);
            let n = if kind == 2 { 3 } else { 2 };
            let supply = if rng.chance(1, 25) { 0 } else { magnitude(&mut rng, 110) };
            let rs: Vec<u128> = (0..n).map(|_| if rng.chance(1, 30) { 0 } else { magnitude(&mut rng, 110) }).collect();
            // deposits near the pool proportions, minted amount near pro rata, then perturbed around the threshold
            let frac = 1 + rng.below(1000) as u128;
            let mut ds: Vec<u128> = rs.iter().map(|r| (r / frac).max(1)).collect();
            if rng.chance(1, 2) { let i = rng.below(n as u64) as usize; ds[i] = ds[i].saturating_add(ds[i] / (1 + rng.below(200) as u128)); }
            if rng.chance(1, 20) { let i = rng.below(n as u64) as usize; ds[i] = 0; }
            let mut amount = (supply / frac).max(if rng.chance(1, 20) { 0 } else { 1 });
            match rng.below(4) { 0 => amount = amount.saturating_add(amount / 100 + 1), 1 => amount = amount.saturating_sub(amount / 100), 2 => amount = amount.saturating_add(1), _ => {} }
            let r = match kind {
                2 => run_catch(|| stableswap_3pool::verif_hooks::assert_slippage_tolerance(&tol.map(d), &[Uint128::new(ds[0]), Uint128::new(ds[1]), Uint128::new(ds[2])],
                        &[nat("a", rs[0]), nat("b", rs[1]), nat("c", rs[2])], Uint128::new(amount), Uint128::new(supply)), |e| classify_text(&e.to_string())),
                _ => run_catch(|| terraswap_pair::verif_hooks::assert_slippage_tolerance(&tol.map(d), &[Uint128::new(ds[0]), Uint128::new(ds[1])],
                        &[nat("a", rs[0]), nat("b", rs[1])], if kind == 1 { PairType::StableSwap { amp: 100 } } else { PairType::ConstantProduct }, Uint128::new(amount), Uint128::new(supply)),
                        |e| classify_text(&e.to_string())),
            };
            let pool_name = ["constant-product pair", "stableswap pair", "3pool"][kind as usize];
            let replay = json!({"kind": "assert_slippage_tolerance", "pool": pool_name, "tolerance": tol.map(|t| t.to_string()),
                                "deposits": ds.iter().map(|x| x.to_string()).collect::<Vec<_>>(), "reserves": rs.iter().map(|x| x.to_string()).collect::<Vec<_>>(),
                                "minted": amount.to_string(), "supply": supply.to_string()});
            // monitor for the stableswap arms: accepted <=> floor(floor(R*1e18/S)*(1e18-t)/1e18) <= floor(D*1e18/minted)
            out.monitor_evals += 1;
            if kind != 0 {
                if let Some(t) = tol {
                    if t <= DEC && supply > 0 && amount > 0 {
                        let u = |x: u128| cosmwasm_std::Uint512::from(Uint128::new(x));
                        let rt = rs.iter().fold(cosmwasm_std::Uint512::zero(), |a, x| a + u(*x));
                        let dt = ds.iter().fold(cosmwasm_std::Uint512::zero(), |a, x| a + u(*x));
                        let lhs = rt * u(DEC) / u(supply) * u(DEC - t) / u(DEC);
                        let rhs = dt * u(DEC) / u(amount);
                        match &r {
                            Outcome::Ok(_) => if lhs > rhs { out.monitor_fail("C15", "stableswap deposit accepted outside its slippage tolerance", replay.clone()); },
                            Outcome::Err(_) => if lhs <= rhs { out.monitor_fail("C15", "stableswap deposit within its slippage tolerance was rejected", replay.clone()); },
                            Outcome::Panic(_) => out.monitor_fail("C15", "assert_slippage_tolerance aborted", replay.clone()),
                        }
                    }
                    if t > DEC && matches!(r, Outcome::Ok(_)) { out.monitor_fail("C15", "tolerance above 1 accepted", replay.clone()); }
                }
            }
            out.count(&format!("tol{}:{}", kind, match &r { Outcome::Ok(_) => "ok", Outcome::Err(c) if *c == E_SLIPPAGE => "slippage", Outcome::Err(_) => "err", Outcome::Panic(_) => "panic" }));
            let o = |x: &Option<u128>| match x { Some(v) => format!("(Some {})", v), None => "None".into() };
            out.case("tol", &format!("({}, {}, {}, {}, {}, {})", kind, o(&tol), zlist(&ds), zlist(&rs), amount, supply), &obs(&r, |_| vec![]), replay);
        }
    }
    // corpus (run after the generated streams above, before the generated histories: their generator state is untouched): a pool whose
    // pending protocol fees are lopsided (~2 % of one reserve); deposits at the true reserve ratio with tolerances 0 .. 0.5 % are accepted,
    // deposits 2 % off are refused with 0.5 % and accepted with 5 %
    for kinds in [[false, false], [false, true]] {
        let ms = Some(DEC / 2);
        let case = PairCase { kinds, fab: false, decs: [6, 6], fees: (DEC / 5, 3 * DEC / 1000, 0), ops: vec![
            POp::Provide { who: 1, d0: 1_000_000_000, d1: 1_000_000_000, tol: None, receiver: None },
            POp::Swap { who: 2, dir: false, x: 100_000_000, belief: None, max_spread: ms, to: None },
            // reserves now 1 100 000 000 : 909 363 637 (balance of the second asset 927 545 455, of which 18 181 818 are pending fees)
            POp::Provide { who: 3, d0: 110_000_000, d1: 90_936_364, tol: Some(DEC / 200), receiver: None },
            POp::Provide { who: 3, d0: 11_000_000, d1: 9_093_636, tol: Some(DEC / 1000), receiver: None },
            POp::Provide { who: 4, d0: 110_000_000, d1: 92_754_545, tol: Some(DEC / 200), receiver: None },
            POp::Provide { who: 4, d0: 110_000_000, d1: 92_754_545, tol: Some(DEC / 20), receiver: None },
            POp::Withdraw { who: 3, a: 50_000_000 },
        ]};
        if let Some(r) = run_case(&mut out, "C15", &case) { out.case("pairhist", &case.coq(), &r.obs, case.json()); }
    }
    let bias = Bias { tiny_swaps: false, spreads: true, toggles: false };
    for c in 0..args.n {
        let len = 5 + rng.below(25) as usize;
        let case = match std::panic::catch_unwind(std::panic::AssertUnwindSafe(|| gen_case(&mut rng, len, &bias))) { Ok(c) => c, Err(_) => { out.count("generator_panic"); continue } };
        let r = match run_case(&mut out, "C15", &case) { Some(r) => r, None => continue };
        if r.kinds_ok.len() >= 3 && r.had_remainder { out.nontrivial_key(hash_str(&case.coq())); }
        if c < 2 { out.sample(case.json()); }
        out.case("pairhist", &case.coq(), &r.obs, case.json());
    }
    crate::routerstream::run_stream(&mut out, "C15", &mut rng, args.n / 2);
    // three-asset pool histories (native and cw20 offers with max spreads): spread monitors in the pool-history runner
    crate::c04_pool::pool_histories(&mut out, &mut rng, (args.n / 2).max(30));
    out.finish();
}
