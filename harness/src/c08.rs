//! C08 — whale_lair bonding conservation. Histories of Bond / Unbond / Withdraw (+ donations) by 3 users over 2 bonding
//! denoms on the REAL whale_lair with the REAL fee_distributor / fee_collector behind its guards; environment events
//! (fees arriving, NewEpoch, Claim) make the guards reject. Model input: Lair.v ops with the observed guard value.
use crate::common::*;
use crate::w_epochs::*;
use crate::world::*;
use cosmwasm_std::{coin, Addr, Coin, Uint128};
use cw_multi_test::Executor;
use serde_json::{json, Value};
use white_whale_std::pool_network::asset::{Asset, AssetInfo};

const U: [&str; 3] = ["alice", "bob", "carol"];
const D: [&str; 4] = ["uatom", "ubtc", LOOKALIKE_DENOM, "uwhale"]; // 0,1 bonding; 2 not whitelisted (a factory denom ending in "/uatom"); 3 distribution asset
const NS: u64 = 1_000_000_000;

#[derive(Clone, Debug)]
pub enum Ev {
    Bond { who: usize, native: bool, denom: usize, amount: u128, funds: Vec<(usize, u128)> },
    Unbond { who: usize, native: bool, denom: usize, amount: u128 },
    Withdraw { who: usize, denom: usize },
    Donate { denom: usize, amount: u128 },
    // environment (not lair calls): they only change what the guards answer
    NewEpoch { fee: u128 },
    Claim { who: usize },
}

fn ev_json(t: u64, e: &Ev) -> Value {
    match e {
        Ev::Bond { who, native, denom, amount, funds } => json!({"t": t.to_string(), "op": "bond", "who": who, "native": native, "denom": denom,
            "amount": amount.to_string(), "funds": funds.iter().map(|(d, a)| json!([d, a.to_string()])).collect::<Vec<_>>()}),
        Ev::Unbond { who, native, denom, amount } => json!({"t": t.to_string(), "op": "unbond", "who": who, "native": native, "denom": denom, "amount": amount.to_string()}),
        Ev::Withdraw { who, denom } => json!({"t": t.to_string(), "op": "withdraw", "who": who, "denom": denom}),
        Ev::Donate { denom, amount } => json!({"t": t.to_string(), "op": "donate", "denom": denom, "amount": amount.to_string()}),
        Ev::NewEpoch { fee } => json!({"t": t.to_string(), "op": "new_epoch", "fee": fee.to_string()}),
        Ev::Claim { who } => json!({"t": t.to_string(), "op": "claim", "who": who}),
    }
}
fn p128(v: &Value) -> u128 { v.as_str().map(|s| s.parse().unwrap_or(0)).unwrap_or_else(|| v.as_u64().unwrap_or(0) as u128) }
fn ev_from_json(v: &Value) -> Option<(u64, Ev)> {
    let t: u64 = v["t"].as_str()?.parse().ok()?;
    let us = |k: &str| v[k].as_u64().unwrap_or(0) as usize;
    let e = match v["op"].as_str()? {
        "bond" => Ev::Bond { who: us("who"), native: v["native"].as_bool().unwrap_or(true), denom: us("denom"), amount: p128(&v["amount"]),
            funds: v["funds"].as_array().map(|a| a.iter().map(|p| (p[0].as_u64().unwrap_or(0) as usize, p128(&p[1]))).collect()).unwrap_or_default() },
        "unbond" => Ev::Unbond { who: us("who"), native: v["native"].as_bool().unwrap_or(true), denom: us("denom"), amount: p128(&v["amount"]) },
        "withdraw" => Ev::Withdraw { who: us("who"), denom: us("denom") },
        "donate" => Ev::Donate { denom: us("denom"), amount: p128(&v["amount"]) },
        "new_epoch" => Ev::NewEpoch { fee: p128(&v["fee"]) },
        "claim" => Ev::Claim { who: us("who") },
        _ => return None,
    };
    Some((t, e))
}

fn asset_of(native: bool, denom: usize, amount: u128) -> Asset {
    if native { asset_native(D[denom], amount) } else { Asset { info: AssetInfo::Token { contract_addr: "sometoken".into() }, amount: Uint128::new(amount) } }
}
fn coins_of(funds: &[(usize, u128)]) -> Vec<Coin> {
    let mut v: Vec<Coin> = funds.iter().map(|(d, a)| coin(*a, D[*d])).collect();
    v.sort_by(|a, b| a.denom.cmp(&b.denom));
    v
}

/// all unbonding records of (who, denom): (timestamp nanos, amount), paginated past the 30-record page
fn all_unbonding(w: &EpochWorld, who: &str, denom: &str) -> Vec<(u64, u128)> {
    let mut out: Vec<(u64, u128)> = vec![];
    let mut start: Option<u64> = None;
    loop {
        let r: white_whale_std::whale_lair::UnbondingResponse = w.app.wrap().query_wasm_smart(&w.lair,
            &white_whale_std::whale_lair::QueryMsg::Unbonding { address: who.to_string(), denom: denom.to_string(), start_after: start, limit: Some(30) }).unwrap();
        if r.unbonding_requests.is_empty() { break; }
        for b in &r.unbonding_requests { out.push((b.timestamp.nanos(), b.asset.amount.u128())); }
        start = Some(out.last().unwrap().0);
        if r.unbonding_requests.len() < 30 { break; }
    }
    out
}

/// what the guards of bond/unbond will answer for `who` right now, computed from the fee distributor's own queries
fn guard_rejects(w: &EpochWorld, who: &str) -> bool {
    let unclaimed = w.q_claimable(who).map(|e| !e.is_empty()).unwrap_or(true);
    let cur = w.q_current_epoch();
    let late = cur.id.u64() != 0 && (w.now() / NS) - cur.start_time.seconds() > 86_400;
    unclaimed || late
}

pub struct Tracker {
    pub donated: [u128; 4],
    pub unbonded: [[u128; 2]; 3],
    pub paid: [[u128; 2]; 3],
}

/// the observation vector after an op, in the order of CorrC08.obs_state
fn observe(w: &EpochWorld) -> Vec<String> {
    let mut v: Vec<String> = vec![];
    for d in 0..3 { v.push(w.bal(w.lair.as_str(), D[d]).to_string()); }
    let g = w.q_global_index();
    v.push(g.bonded_amount.to_string());
    v.push(asset_amount(&g.bonded_assets, D[0]).to_string());
    v.push(asset_amount(&g.bonded_assets, D[1]).to_string());
    v.push(g.weight.to_string());
    v.push(g.timestamp.nanos().to_string());
    for u in 0..3 {
        let b = w.q_bonded(U[u]).map(|r| r.bonded_assets).unwrap_or_default();
        for d in 0..2 {
            v.push(asset_amount(&b, D[d]).to_string());
            v.push(match w.q_unbonding(U[u], D[d], 30) { Ok(r) => r.total_amount.to_string(), Err(_) => "-1".into() });
            v.push(match w.q_withdrawable(U[u], D[d]) { Some(x) => x.to_string(), None => "-1".into() });
        }
    }
    v
}

/// the property's own predicate on the implementation
fn monitor(out: &mut Out, w: &EpochWorld, tr: &Tracker, replay: &Value) {
    out.monitor_evals += 1;
    let tb = w.q_total_bonded();
    let mut all_bonded = cosmwasm_std::Uint256::zero();
    for d in 0..2 {
        let mut bonded: u128 = 0;
        let mut pending: u128 = 0;
        for u in 0..3 {
            let b = w.q_bonded(U[u]).map(|r| asset_amount(&r.bonded_assets, D[d])).unwrap_or(0);
            bonded += b;
            let p: u128 = all_unbonding(w, U[u], D[d]).iter().map(|x| x.1).sum();
            pending += p;
            if tr.unbonded[u][d] != p + tr.paid[u][d] {
                out.monitor_fail("C08", &format!("unbonded total {} of {} in {} != still pending {} + withdrawn {}", tr.unbonded[u][d], U[u], D[d], p, tr.paid[u][d]), replay.clone());
            }
        }
        let bal = w.bal(w.lair.as_str(), D[d]);
        if cosmwasm_std::Uint256::from(bal) != cosmwasm_std::Uint256::from(bonded) + cosmwasm_std::Uint256::from(pending) + cosmwasm_std::Uint256::from(tr.donated[d]) {
            out.monitor_fail("C08", &format!("contract balance of {} is {} but bonded {} + unbonding {} (+ donated {}): {} units are neither bonded, pending nor returned",
                D[d], bal, bonded, pending, tr.donated[d], (bal as i128).wrapping_sub((bonded as i128).wrapping_add(pending as i128).wrapping_add(tr.donated[d] as i128))), replay.clone());
        }
        if asset_amount(&tb.bonded_assets, D[d]) != bonded {
            out.monitor_fail("C08", &format!("global bonded_assets[{}] = {} != sum of the users' bonds {}", D[d], asset_amount(&tb.bonded_assets, D[d]), bonded), replay.clone());
        }
        all_bonded += cosmwasm_std::Uint256::from(bonded);
    }
    if cosmwasm_std::Uint256::from(tb.total_bonded.u128()) != all_bonded {
        out.monitor_fail("C08", &format!("global bonded total {} != sum of the users' bonds {}", tb.total_bonded, all_bonded), replay.clone());
    }
    if w.bal(w.lair.as_str(), D[2]) != tr.donated[2] {
        out.monitor_fail("C08", "the contract holds a non-whitelisted asset that nobody donated", replay.clone());
    }
}

pub struct Exec {
    pub w: EpochWorld,
    pub tr: Tracker,
    pub terms: Vec<String>,
    pub obs: Vec<String>,
    pub history: Vec<Value>,
    pub kinds: std::collections::BTreeSet<&'static str>,
    pub same_block_unbonds: u64,
    pub last_unbond: Option<(usize, usize, u64)>,
    pub ok_ops: u64,
}

impl Exec {
    pub fn new(period: u64, growth: u128) -> Exec {
        let cfg = EpochCfg { unbonding_period: period, growth_rate: growth, ..Default::default() };
        let w = deploy_epoch_world(cfg).expect("deploy");
        Exec { w, tr: Tracker { donated: [0; 4], unbonded: [[0; 2]; 3], paid: [[0; 2]; 3] }, terms: vec![], obs: vec![], history: vec![],
               kinds: Default::default(), same_block_unbonds: 0, last_unbond: None, ok_ops: 0 }
    }
    pub fn replay_json(&self) -> Value {
        json!({"kind": "lair_history", "unbonding_period": self.w.cfg.unbonding_period.to_string(), "growth_rate": self.w.cfg.growth_rate.to_string(),
               "users": U, "denoms": D, "events": self.history})
    }
    /// run one event at block time t on the real contracts; lair calls are recorded for the model
    pub fn exec(&mut self, out: &mut Out, t: u64, e: &Ev) {
        self.w.set_time(t);
        self.history.push(ev_json(t, e));
        let replay = self.replay_json();
        match e {
            Ev::NewEpoch { fee } => {
                if *fee > 0 { let _ = self.w.feed_collector("donor", *fee); }
                let r = self.w.new_epoch("donor");
                out.count(if r.is_ok() { "env:new_epoch_ok" } else { "env:new_epoch_rejected" });
                return;
            }
            Ev::Claim { who } => {
                let r = run_catch(|| self.w.claim(U[*who]), |_e| E_OTHER);
                out.count(match r { Outcome::Ok(_) => "env:claim_ok", _ => "env:claim_rejected" });
                return;
            }
            _ => {}
        }
        let (who, denom) = match e { Ev::Bond { who, denom, .. } | Ev::Unbond { who, denom, .. } | Ev::Withdraw { who, denom } => (*who, *denom), Ev::Donate { denom, .. } => (3usize, *denom), _ => unreachable!() };
        let payer = if who < 3 { U[who] } else { "donor" };
        let before_user = self.w.bal(payer, D[denom]);
        let guard = if who < 3 { guard_rejects(&self.w, U[who]) } else { false };
        let pre_records = if let Ev::Withdraw { who, denom } | Ev::Unbond { who, denom, .. } = e { if *denom < 2 { all_unbonding(&self.w, U[*who], D[*denom]) } else { vec![] } } else { vec![] };
        let pre_withdrawable = if let Ev::Withdraw { who, denom } = e { self.w.q_withdrawable(U[*who], D[*denom]) } else { None };
        let classify = |e: &anyhow::Error| classify_text(&format!("{:#}", e));
        let (term, r) = match e {
            Ev::Bond { who, native, denom, amount, funds } => {
                let term = format!("Bond {} {} {} {} {} {}", who, coqbool(*native), denom, amount,
                    coqlist(&funds.iter().map(|(d, a)| format!("({}, {})", d, a)).collect::<Vec<_>>()), coqbool(guard));
                let asset = asset_of(*native, *denom, *amount);
                let coins = coins_of(funds);
                (term, run_catch(|| self.w.bond(U[*who], asset, &coins), classify))
            }
            Ev::Unbond { who, native, denom, amount } => {
                let term = format!("Unbond {} {} {} {} {}", who, coqbool(*native), denom, amount, coqbool(guard));
                let asset = asset_of(*native, *denom, *amount);
                (term, run_catch(|| self.w.unbond(U[*who], asset, &[]), classify))
            }
            Ev::Withdraw { who, denom } => {
                (format!("Withdraw {} {}", who, denom), run_catch(|| self.w.withdraw(U[*who], D[*denom], &[]), classify))
            }
            Ev::Donate { denom, amount } => {
                let lair = self.w.lair.clone();
                (format!("Donate {} {}", denom, amount), run_catch(|| self.w.app.send_tokens(Addr::unchecked("donor"), lair, &[coin(*amount, D[*denom])]), classify))
            }
            _ => unreachable!(),
        };
        let after_user = self.w.bal(payer, D[denom]);
        let delta: i128 = after_user as i128 - before_user as i128;
        let ok = matches!(r, Outcome::Ok(_));
        let kind: &'static str = match e { Ev::Bond { .. } => "bond", Ev::Unbond { .. } => "unbond", Ev::Withdraw { .. } => "withdraw", _ => "donate" };
        out.count(&format!("{}:{}", kind, match &r { Outcome::Ok(_) => "ok", Outcome::Err(_) => "err", Outcome::Panic(_) => "panic" }));
        if guard && who < 3 && !matches!(e, Ev::Withdraw { .. }) { out.count("guard_rejecting"); }
        if ok {
            self.ok_ops += 1;
            self.kinds.insert(kind);
            match e {
                Ev::Bond { who: _, native, denom, amount, .. } => {
                    if !*native || *denom >= 2 { out.monitor_fail("C08", "a bond of a non-whitelisted or non-native asset was accepted", replay.clone()); }
                    if delta != -(*amount as i128) { out.monitor_fail("C08", "bond did not move exactly the bonded amount", replay.clone()); }
                }
                Ev::Unbond { who, denom, amount, .. } => {
                    if *denom < 2 { self.tr.unbonded[*who][*denom] += *amount; }
                    if self.last_unbond == Some((*who, *denom, t)) { self.same_block_unbonds += 1; out.count("unbond:same_block_same_key"); }
                    self.last_unbond = Some((*who, *denom, t));
                    if delta != 0 { out.monitor_fail("C08", "unbond moved funds", replay.clone()); }
                    // the unbonded amount waits a full unbonding period from NOW: it is booked under the current block time (a new record, or
                    // the record of this very block grows by it) and no record of an earlier time changes
                    if *denom < 2 {
                        let post = all_unbonding(&self.w, U[*who], D[*denom]);
                        let at = |v: &Vec<(u64, u128)>, ts: u64| -> u128 { v.iter().filter(|x| x.0 == ts).map(|x| x.1).sum() };
                        if at(&post, t) != at(&pre_records, t) + *amount { out.monitor_fail("C08", &format!("the unbonded amount {} is not booked under the current block time {}", amount, t), replay.clone()); }
                        if pre_records.iter().any(|x| x.0 != t && at(&post, x.0) != at(&pre_records, x.0)) || post.iter().any(|x| x.0 != t && at(&pre_records, x.0) != at(&post, x.0)) {
                            out.monitor_fail("C08", "an Unbond changed an unbonding record of another time", replay.clone());
                        }
                    }
                }
                Ev::Withdraw { who, denom } => {
                    if *denom < 2 { self.tr.paid[*who][*denom] += delta.max(0) as u128; }
                    // paid == what the Withdrawable query promised; removed records are exactly the matured ones (first page), each paid once
                    if pre_withdrawable.map(|x| x as i128) != Some(delta) { out.monitor_fail("C08", "withdraw paid something different from the Withdrawable query", replay.clone()); }
                    let post = all_unbonding(&self.w, U[*who], D[*denom]);
                    let removed: Vec<&(u64, u128)> = pre_records.iter().filter(|x| !post.contains(x)).collect();
                    let rsum: u128 = removed.iter().map(|x| x.1).sum();
                    if rsum as i128 != delta { out.monitor_fail("C08", "withdraw paid an amount different from the removed unbonding records", replay.clone()); }
                    let period = self.w.cfg.unbonding_period;
                    if removed.iter().any(|x| (x.0 as u128) + (period as u128) > t as u128) { out.monitor_fail("C08", "an unbonding record was paid before its unbonding period elapsed", replay.clone()); }
                    if pre_records.len() <= 30 && post.iter().any(|x| (x.0 as u128) + (period as u128) <= t as u128) {
                        out.monitor_fail("C08", "a matured unbonding record was left unpaid by a successful withdraw", replay.clone());
                    }
                }
                Ev::Donate { denom, amount } => { self.tr.donated[*denom] += *amount; }
                _ => {}
            }
        } else if delta != 0 {
            out.monitor_fail("C08", "a rejected call moved funds", replay.clone());
        }
        monitor(out, &self.w, &self.tr, &replay);
        self.terms.push(format!("({}, {})", t, term));
        let mut o = obs(&r, |_| vec![]);
        o.push(delta.to_string());
        o.extend(observe(&self.w));
        self.obs.extend(o);
    }
    pub fn emit(self, out: &mut Out) {
        let input = format!("(({}, {}, [0; 1]), {})", self.w.cfg.unbonding_period, self.w.cfg.growth_rate, coqlist(&self.terms));
        let replay = self.replay_json();
        if self.kinds.len() >= 3 && self.ok_ops >= 4 { out.nontrivial_key(hash_str(&input)); }
        out.sample(replay.clone());
        out.case("c08", &input, &self.obs, replay);
    }
}

/// hand-picked regression histories, run first
fn corpus(out: &mut Out) {
    let t0 = GENESIS_DEFAULT;
    // the witness of the fixed defect: two unbonds of the same address and denom in one block
    let hs: Vec<(u64, u128, Vec<(u64, Ev)>)> = vec![
        (1_000, DEC_ONE, vec![
            (t0, Ev::Bond { who: 0, native: true, denom: 0, amount: 10, funds: vec![(0, 10)] }),
            (t0 + 5, Ev::Unbond { who: 0, native: true, denom: 0, amount: 3 }),
            (t0 + 5, Ev::Unbond { who: 0, native: true, denom: 0, amount: 4 }),
            (t0 + 1_004, Ev::Withdraw { who: 0, denom: 0 }),
            (t0 + 1_005, Ev::Withdraw { who: 0, denom: 0 }),
            (t0 + 1_005, Ev::Withdraw { who: 0, denom: 0 }),
        ]),
        (0, 0, vec![
            (t0, Ev::Bond { who: 1, native: true, denom: 1, amount: 1u128 << 100, funds: vec![(1, 1u128 << 100)] }),
            (t0, Ev::Unbond { who: 1, native: true, denom: 1, amount: 1 }),
            (t0, Ev::Unbond { who: 1, native: true, denom: 1, amount: (1u128 << 100) - 1 }),
            (t0, Ev::Withdraw { who: 1, denom: 1 }),
            (t0, Ev::Withdraw { who: 2, denom: 1 }),
        ]),
        // guards: rewards pending => bond/unbond rejected until claimed; stale epoch => rejected
        (1_000, DEC_ONE / 2, vec![
            (t0, Ev::Bond { who: 0, native: true, denom: 0, amount: 1_000, funds: vec![(0, 1_000)] }),
            (t0, Ev::NewEpoch { fee: 5_000 }),
            (t0 + 10 * NS, Ev::Bond { who: 1, native: true, denom: 0, amount: 500, funds: vec![(0, 500)] }),
            (t0 + DAY_NS, Ev::NewEpoch { fee: 7_000 }),
            (t0 + DAY_NS + NS, Ev::Unbond { who: 0, native: true, denom: 0, amount: 10 }),
            (t0 + DAY_NS + NS, Ev::Claim { who: 0 }),
            (t0 + DAY_NS + NS, Ev::Unbond { who: 0, native: true, denom: 0, amount: 10 }),
            (t0 + 2 * DAY_NS + 2 * NS, Ev::Unbond { who: 0, native: true, denom: 0, amount: 10 }),
            (t0 + 2 * DAY_NS + 2 * NS, Ev::Withdraw { who: 0, denom: 0 }),
        ]),
        // malformed bonds, non-whitelisted, token asset, withdraw with a period larger than the block time (panic)
        (u64::MAX, DEC_ONE, vec![
            (t0, Ev::Bond { who: 0, native: true, denom: 2, amount: 10, funds: vec![(2, 10)] }),
            (t0, Ev::Bond { who: 0, native: false, denom: 0, amount: 10, funds: vec![(0, 10)] }),
            (t0, Ev::Bond { who: 0, native: true, denom: 0, amount: 10, funds: vec![(0, 11)] }),
            (t0, Ev::Bond { who: 0, native: true, denom: 0, amount: 10, funds: vec![] }),
            (t0, Ev::Bond { who: 0, native: true, denom: 0, amount: 10, funds: vec![(0, 10), (1, 10)] }),
            (t0, Ev::Bond { who: 0, native: true, denom: 0, amount: 10, funds: vec![(0, 10)] }),
            (t0, Ev::Unbond { who: 0, native: true, denom: 0, amount: 0 }),
            (t0, Ev::Unbond { who: 0, native: true, denom: 0, amount: 11 }),
            (t0, Ev::Unbond { who: 0, native: true, denom: 0, amount: 10 }),
            (t0 + 1, Ev::Withdraw { who: 0, denom: 0 }),
            (t0 + 1, Ev::Donate { denom: 0, amount: 77 }),
        ]),
    ];
    // more matured unbonding records than one page (MAX_PAGE_LIMIT): every record must still be paid, page by page
    let mut hs = hs;
    let mut many: Vec<(u64, Ev)> = vec![(t0, Ev::Bond { who: 2, native: true, denom: 0, amount: 10_000, funds: vec![(0, 10_000)] })];
    for i in 0..33u64 { many.push((t0 + 1 + i, Ev::Unbond { who: 2, native: true, denom: 0, amount: 10 + i as u128 })); }
    // bonds whose sum exceeds 128 bits: the bond that would overflow the global total is refused (nothing may be clamped)
    let big = crate::world::RICH - 1_000;
    hs.push((1_000, DEC_ONE, vec![
        (t0, Ev::Bond { who: 0, native: true, denom: 0, amount: big, funds: vec![(0, big)] }),
        (t0, Ev::Bond { who: 1, native: true, denom: 0, amount: big, funds: vec![(0, big)] }),
        (t0, Ev::Bond { who: 2, native: true, denom: 1, amount: big, funds: vec![(1, big)] }),
        (t0, Ev::Bond { who: 0, native: true, denom: 1, amount: big, funds: vec![(1, big)] }),
        (t0 + 1, Ev::Bond { who: 1, native: true, denom: 1, amount: big, funds: vec![(1, big)] }),
        (t0 + 2, Ev::Unbond { who: 2, native: true, denom: 1, amount: big }),
        (t0 + 3, Ev::Unbond { who: 0, native: true, denom: 0, amount: big / 2 }),
        (t0 + 2_000, Ev::Withdraw { who: 2, denom: 1 }),
    ]));
    many.push((t0 + 2_000, Ev::Withdraw { who: 2, denom: 0 }));
    many.push((t0 + 2_001, Ev::Withdraw { who: 2, denom: 0 }));
    many.push((t0 + 2_002, Ev::Withdraw { who: 2, denom: 0 }));
    hs.push((1_000, DEC_ONE, many));
    for (period, growth, evs) in hs {
        let mut x = Exec::new(period, growth);
        for (t, e) in &evs { x.exec(out, *t, e); }
        out.count("history:corpus");
        x.emit(out);
    }
}

fn gen_history(out: &mut Out, rng: &mut Rng) {
    let period: u64 = *rng.pick(&[0u64, 1, 1_000, 1_000_000_000_000, DAY_NS, 3 * DAY_NS, u64::MAX]);
    let period = if period == u64::MAX && !rng.chance(1, 4) { 1_000 } else { period };
    let growth: u128 = *rng.pick(&[0u128, 1, DEC_ONE / 2, DEC_ONE, DEC_ONE, 333_333_333_333_333_333]);
    let mut x = Exec::new(period, growth);
    let mut t = GENESIS_DEFAULT;
    let len = 8 + rng.below(30);
    let with_epochs = rng.chance(1, 3);
    let big = rng.chance(1, 5);
    for _ in 0..len {
        // time: mostly the same block or tiny steps, sometimes around the unbonding period / a day
        let p = period.min(10 * DAY_NS);
        let dt: u64 = match rng.below(14) {
            0..=5 => 0,
            6 => 1,
            7 => p.saturating_sub(1),
            8 | 9 => p,
            10 => p.saturating_add(1),
            11 => NS,
            12 => DAY_NS,
            _ => rng.below(3 * NS),
        };
        t = t.saturating_add(dt).min(u64::MAX / 2);
        x.w.set_time(t);
        // what the state offers (so that most calls are meaningful); a share of the choices stays blind
        let mut bonded = [[0u128; 2]; 3];
        let mut recs: Vec<(usize, usize)> = vec![];
        let mut holders: Vec<(usize, usize)> = vec![];
        for u in 0..3 {
            let b = x.w.q_bonded(U[u]).map(|r| r.bonded_assets).unwrap_or_default();
            for d in 0..2 {
                bonded[u][d] = asset_amount(&b, D[d]);
                if bonded[u][d] > 0 { holders.push((u, d)); }
                if x.w.q_unbonding(U[u], D[d], 1).map(|r| !r.unbonding_requests.is_empty()).unwrap_or(false) { recs.push((u, d)); }
            }
        }
        let blind = rng.chance(1, 6);
        let mut who = rng.below(3) as usize;
        let mut denom = if rng.chance(1, 14) { 2 } else { rng.below(2) as usize };
        let cur = x.w.q_current_epoch();
        let stale = cur.id.u64() != 0 && (t / NS) - cur.start_time.seconds() > 86_400;
        let kind = if with_epochs && stale && rng.chance(2, 3) { 11 } else { rng.below(if with_epochs { 14 } else { 11 }) };
        let e = match kind {
            0..=2 => {
                let amount = if big { magnitude(rng, 124) } else { magnitude(rng, 64) };
                let funds = match rng.below(16) {
                    0 => vec![],
                    1 => vec![(denom, amount.saturating_add(1))],
                    2 => vec![((denom + 1) % 3, amount)],
                    3 => vec![(denom, amount), ((denom + 1) % 3, 1)],
                    _ => vec![(denom, amount)],
                };
                Ev::Bond { who, native: !rng.chance(1, 25), denom, amount, funds }
            }
            3..=6 => {
                if !blind && !holders.is_empty() { let h = *rng.pick(&holders); who = h.0; denom = h.1; }
                let b = if denom < 2 { bonded[who][denom] } else { 0 };
                let amount = match rng.below(10) {
                    0 => 0,
                    1 => b,
                    2 => b.saturating_add(1),
                    3 => 1,
                    _ => if b > 0 { 1 + rng.below128(b) } else { magnitude(rng, 32) },
                };
                Ev::Unbond { who, native: !rng.chance(1, 30), denom, amount }
            }
            7..=9 => {
                if !blind && !recs.is_empty() { let h = *rng.pick(&recs); who = h.0; denom = h.1; }
                Ev::Withdraw { who, denom }
            }
            10 => Ev::Donate { denom, amount: if rng.chance(1, 6) { 0 } else { magnitude(rng, 40) } },
            11 | 12 => Ev::NewEpoch { fee: if rng.chance(1, 5) { 0 } else { magnitude(rng, 60) } },
            _ => Ev::Claim { who },
        };
        // an address whose guard is up claims first, most of the time
        if let Ev::Bond { who, .. } | Ev::Unbond { who, .. } = &e {
            if with_epochs && rng.chance(3, 4) && x.w.q_claimable(U[*who]).map(|v| !v.is_empty()).unwrap_or(false) {
                x.exec(out, t, &Ev::Claim { who: *who });
            }
        }
        x.exec(out, t, &e);
        // a second unbond in the very same block (the corner DESIGN lists)
        if let Ev::Unbond { who, native, denom, amount } = &e {
            if rng.chance(1, 3) && *amount > 0 {
                let e2 = Ev::Unbond { who: *who, native: *native, denom: *denom, amount: 1 + rng.below128((*amount).min(1u128 << 60)) };
                x.exec(out, t, &e2);
            }
        }
    }
    out.count(&format!("history:period_{}", match period { 0 => "0".to_string(), 1 => "1ns".to_string(), u64::MAX => "max".to_string(), p if p >= DAY_NS => "days".to_string(), _ => "short".to_string() }));
    out.count(if with_epochs { "history:with_epochs" } else { "history:no_epochs" });
    x.emit(out);
}

fn replay(args: &Args, path: &str) {
    let text = std::fs::read_to_string(path).or_else(|_| std::fs::read_to_string(format!("../{}", path))).expect("replay file");
    let v: Value = serde_json::from_str(&text).expect("json");
    let f = if v.get("failing_input").is_some() { v["failing_input"].clone() } else { v.clone() };
    let period: u64 = f["unbonding_period"].as_str().and_then(|s| s.parse().ok()).unwrap_or(1_000);
    let growth: u128 = f["growth_rate"].as_str().and_then(|s| s.parse().ok()).unwrap_or(DEC_ONE);
    let mut out = Out::new(&args.out);
    let mut x = Exec::new(period, growth);
    for ev in f["events"].as_array().cloned().unwrap_or_default() {
        if let Some((t, e)) = ev_from_json(&ev) {
            let before = out.monitor_failures.len();
            x.exec(&mut out, t, &e);
            println!("t={} {:?} -> lair balances [{}, {}] monitor_failures+{}", t, e, x.w.bal(x.w.lair.as_str(), D[0]), x.w.bal(x.w.lair.as_str(), D[1]), out.monitor_failures.len() - before);
        }
    }
    let n = out.monitor_failures.len();
    for m in &out.monitor_failures { println!("PROPERTY FALSE: {}", m["what"]); }
    out.finish();
    std::process::exit(if n > 0 { 1 } else { 0 });
}

pub fn run(args: &Args) {
    if let Some(p) = &args.replay {
        if replay_kind(p) == "migration_probe" { let mut o = Out::new(&args.out); replay_probe(&mut o, &mut |o| migration_probe(o)); }
        replay(args, p); return;
    }
    let mut out = Out::new(&args.out);
    out.rule = "a history = 6..28 calls (Bond/Unbond/Withdraw/donation; NewEpoch/Claim as environment) by 3 users over 2 bonding denoms + 1 foreign denom, \
                block-time steps from {0, 1ns, period-1, period, period+1, 1s, 1 day}; non-trivial = at least 4 accepted lair calls of at least 3 different kinds; \
                distinct = by hash of the whole model input".into();
    let mut rng = Rng::new(args.seed);
    corpus(&mut out);
    migration_probe(&mut out);
    for _ in 0..args.n { gen_history(&mut out, &mut rng); }
    out.finish();
}

/// bonds of three users over both denoms, unbondings pending (matured and not), a withdrawal: then `migrate` on a copy of the lair's
/// storage one patch version back (migr.rs): everything the contract reports about bonds, unbondings and totals must be unchanged
fn migration_probe(out: &mut Out) {
    let t0 = GENESIS_DEFAULT;
    let mut x = Exec::new(1_000, DEC_ONE);
    let mut scratch = Out::new(&format!("{}/scratch_migr", out.dir));
    for (t, e) in [
        (t0, Ev::Bond { who: 0, native: true, denom: 0, amount: 10_000, funds: vec![(0, 10_000)] }),
        (t0 + 1, Ev::Bond { who: 1, native: true, denom: 0, amount: 5_000, funds: vec![(0, 5_000)] }),
        (t0 + 2, Ev::Bond { who: 2, native: true, denom: 1, amount: 7_000, funds: vec![(1, 7_000)] }),
        (t0 + 3, Ev::Unbond { who: 0, native: true, denom: 0, amount: 3_000 }),
        (t0 + 900, Ev::Unbond { who: 1, native: true, denom: 0, amount: 1_000 }),
        (t0 + 1_500, Ev::Withdraw { who: 0, denom: 0 }),
        (t0 + 1_600, Ev::Unbond { who: 2, native: true, denom: 1, amount: 2_000 }),
    ] { x.exec(&mut scratch, t, &e); }
    let dump = x.w.app.dump_wasm_raw(&x.w.lair);
    let b = x.w.app.block_info();
    crate::migr::probe_lair(out, &dump, &U, &[D[0], D[1]], b.time, b.height);
}
