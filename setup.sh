#!/bin/sh
# Build the framework from files on disk only (offline): Coq development + Rust harness.
set -e
cd "$(dirname "$0")"
export CARGO_NET_OFFLINE=true
python3 tools/extract_params.py || echo "setup: Params extraction reported problems (checks will report them)"
sh tools/mkcoqproject.sh
( cd coq && timeout 3000 make -j16 ) || echo "setup: coq build incomplete (checks will report)"
sh tools/mkcargo.sh
( cd harness && timeout 3000 cargo build --release --offline ) || echo "setup: harness build failed (checks will report)"
echo "setup done"
