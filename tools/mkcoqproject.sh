#!/bin/sh
# regenerate coq/_CoqProject (header + every .v under theories proofs props corr) and the Makefile
cd "$(dirname "$0")/../coq" || exit 1
{
cat <<'H'
-Q theories WW
-Q proofs WW.Proofs
-Q props WW.Props
-Q corr WW.Corr
-arg -w -arg -notation-overridden,-deprecated-hint-without-locality,-deprecated-instance-without-locality
H
ls theories/*.v proofs/*.v props/*.v corr/*.v 2>/dev/null
} > _CoqProject.new
if ! cmp -s _CoqProject.new _CoqProject 2>/dev/null || [ ! -f Makefile ]; then
  mv _CoqProject.new _CoqProject
  coq_makefile -f _CoqProject -o Makefile >/dev/null
else rm -f _CoqProject.new; fi
