#!/usr/bin/env python3
"""diagnose a pair-history disagreement: usage diffcase.py replay.json [n]"""
import json, re, sys
j = json.load(open(sys.argv[1]))
n = int(sys.argv[2]) if len(sys.argv) > 2 else 0
OKLEN = int(sys.argv[3]) if len(sys.argv) > 3 else 26
d = j["disagreements"][n]
case = d["case"]
m = re.search(r"\]\), \[([0-9; ]*)\]\)$", case)
exp = [int(x) for x in m.group(1).split(";") if x.strip()]
ops = re.search(r"\[(.*)\]\), \[", case, flags=re.S).group(1).split("; ")
raw = d["model_output_raw"]
mm = re.search(r"\(%d, \[([0-9; ]*)\]\)" % d["index"], raw)
mod = [int(x) for x in mm.group(1).split(";") if x.strip()]
def split(obs):
    out = []; i = 0
    while i < len(obs):
        if obs[i] == 0: out.append(obs[i:i+OKLEN]); i += OKLEN
        elif obs[i] == 1: out.append(obs[i:i+2]); i += 2
        else: out.append(obs[i:i+1]); i += 1
    return out
E, M = split(exp), split(mod)
for k, (e, mo) in enumerate(zip(E, M)):
    if e != mo:
        print("first difference at op", k, ops[k] if k < len(ops) else "?")
        print(" impl :", e)
        print(" model:", mo)
        if k: print(" prev :", E[k-1], ops[k-1])
        break
else:
    print("lengths", len(E), len(M))
