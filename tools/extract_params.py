#!/usr/bin/env python3
"""Mini-translator: regenerates coq/theories/Params.v from /repo's Rust sources on every run.

Numeric constants the properties depend on, and the inventories of ExecuteMsg / Cw20HookMsg
variants of every contract (used by C16/C17). A constant or inventory that cannot be located
is reported on stderr and the script exits 3: the tie to the source is broken.
"""
import os
import re
import sys

REPO = os.environ.get("WW_REPO", "/repo")
OUT = os.path.join(os.path.dirname(os.path.abspath(__file__)), "..", "coq", "theories", "Params.v")

LH = "contracts/liquidity_hub"
PN = LH + "/pool-network"
VN = LH + "/vault-network"
STD = "packages/white-whale-std/src"

# name -> (file, regex with one group giving the numeric literal or expression)
CONSTS = {
    "MINIMUM_LIQUIDITY_AMOUNT": (STD + "/pool_network/asset.rs", r"pub const MINIMUM_LIQUIDITY_AMOUNT: Uint128 = Uint128::new\(([0-9_]+)u128\)"),
    "PAIR_MINIMUM_COLLECTABLE_BALANCE": (PN + "/terraswap_pair/src/commands.rs", r"const MINIMUM_COLLECTABLE_BALANCE: Uint128 = Uint128::new\(([0-9_]+)u128\)"),
    "TRIO_MINIMUM_COLLECTABLE_BALANCE": (PN + "/stableswap_3pool/src/commands.rs", r"const MINIMUM_COLLECTABLE_BALANCE: Uint128 = Uint128::new\(([0-9_]+)u128\)"),
    "PAIR_NEWTON_ITERATIONS": (PN + "/terraswap_pair/src/helpers.rs", r"const NEWTON_ITERATIONS: u64 = ([0-9_]+);"),
    "MIN_AMP": (PN + "/stableswap_3pool/src/stableswap_math/curve.rs", r"pub const MIN_AMP: u64 = ([0-9_]+);"),
    "MAX_AMP": (PN + "/stableswap_3pool/src/stableswap_math/curve.rs", r"pub const MAX_AMP: u64 = ([0-9_]+);"),
    "VAULT_MINIMUM_LIQUIDITY_AMOUNT": (STD + "/pool_network/asset.rs", r"pub const MINIMUM_LIQUIDITY_AMOUNT: Uint128 = Uint128::new\(([0-9_]+)u128\)"),
    "MAX_GRACE_PERIOD": (LH + "/fee_distributor/src/helpers.rs", r"const MAX_GRACE_PERIOD: u64 = ([0-9_]+)(?:u64)?;"),
    "DAY_IN_NANOSECONDS": (LH + "/fee_distributor/src/helpers.rs", r"const DAY_IN_NANOSECONDS: u64 = ([0-9_]+)(?:u64)?;"),
    "BONDING_ASSETS_LIMIT": (LH + "/whale_lair/src/state.rs", r"pub const BONDING_ASSETS_LIMIT: usize = ([0-9_]+);"),
    "MINIMUM_AGGREGABLE_BALANCE": (LH + "/fee_collector/src/commands.rs", r"const MINIMUM_AGGREGABLE_BALANCE: Uint128 = Uint128::new\(([0-9_]+)(?:u128)?\)"),
    "EPOCH_CLAIM_CAP": (PN + "/incentive/src/claim.rs", r"const EPOCH_CLAIM_CAP: u64 = ([0-9_]+)(?:u64)?;"),
    "DEFAULT_SLIPPAGE": (STD + "/pool_network/swap.rs", r'pub const DEFAULT_SLIPPAGE: &str = "([0-9.]+)";'),
    "MAX_ALLOWED_SLIPPAGE": (STD + "/pool_network/swap.rs", r'pub const MAX_ALLOWED_SLIPPAGE: &str = "([0-9.]+)";'),
    "MIN_FLOW_AMOUNT": (PN + "/incentive/src/execute/open_flow.rs", r"const MIN_FLOW_AMOUNT: Uint128 = Uint128::new\(([0-9_]+)(?:u128)?\)"),
}

# optional constants: emitted when found, never fatal (they are added as the models that need them land)
OPTIONAL = set()

# message enums whose variant inventory is generated: coq name -> (file, enum name)
ENUMS = {
    "pair_execute": (STD + "/pool_network/pair.rs", "ExecuteMsg"),
    "pair_cw20hook": (STD + "/pool_network/pair.rs", "Cw20HookMsg"),
    "trio_execute": (STD + "/pool_network/trio.rs", "ExecuteMsg"),
    "trio_cw20hook": (STD + "/pool_network/trio.rs", "Cw20HookMsg"),
    "factory_execute": (STD + "/pool_network/factory.rs", "ExecuteMsg"),
    "router_execute": (STD + "/pool_network/router.rs", "ExecuteMsg"),
    "router_cw20hook": (STD + "/pool_network/router.rs", "Cw20HookMsg"),
    "incentive_execute": (STD + "/pool_network/incentive.rs", "ExecuteMsg"),
    "incentive_factory_execute": (STD + "/pool_network/incentive_factory.rs", "ExecuteMsg"),
    "frontend_helper_execute": (STD + "/pool_network/frontend_helper.rs", "ExecuteMsg"),
    "vault_execute": (STD + "/vault_network/vault.rs", "ExecuteMsg"),
    "vault_callback": (STD + "/vault_network/vault.rs", "CallbackMsg"),
    "vault_cw20hook": (STD + "/vault_network/vault.rs", "Cw20HookMsg"),
    "vault_factory_execute": (STD + "/vault_network/vault_factory.rs", "ExecuteMsg"),
    "vault_router_execute": (STD + "/vault_network/vault_router.rs", "ExecuteMsg"),
    "fee_collector_execute": (STD + "/fee_collector.rs", "ExecuteMsg"),
    "fee_distributor_execute": (STD + "/fee_distributor.rs", "ExecuteMsg"),
    "whale_lair_execute": (STD + "/whale_lair.rs", "ExecuteMsg"),
    "epoch_manager_execute": (STD + "/epoch_manager/epoch_manager.rs", "ExecuteMsg"),
}


# per-family additions: tools/params.d/*.json = {"consts": {NAME: [file, regex]}, "enums": {name: [file, enum]}}
import glob
import json
for _p in sorted(glob.glob(os.path.join(os.path.dirname(os.path.abspath(__file__)), "params.d", "*.json"))):
    _j = json.load(open(_p))
    for _k, _v in _j.get("consts", {}).items():
        CONSTS[_k] = tuple(_v)
    for _k, _v in _j.get("enums", {}).items():
        ENUMS[_k] = tuple(_v)


def read(rel):
    with open(os.path.join(REPO, rel)) as f:
        return f.read()


def strip_comments(src):
    src = re.sub(r"/\*.*?\*/", "", src, flags=re.S)
    return re.sub(r"//[^\n]*", "", src)


def enum_variants(src, name):
    m = re.search(r"pub enum %s\s*\{" % re.escape(name), src)
    if not m:
        return None
    i = m.end()
    depth = 1
    body_start = i
    while i < len(src) and depth:
        if src[i] in "{(":
            depth += 1
        elif src[i] in "})":
            depth -= 1
        i += 1
    body = strip_comments(src[body_start:i - 1])
    # default build: drop variants guarded by a positive feature cfg, keep not(feature) ones
    out = []
    depth = 0
    tok = ""
    pending_skip = False
    items = []
    cur = ""
    for ch in body:
        if ch in "{([":
            depth += 1
        elif ch in "})]":
            depth -= 1
        if ch == "," and depth == 0:
            items.append(cur)
            cur = ""
        else:
            cur += ch
    if cur.strip():
        items.append(cur)
    for it in items:
        attrs = re.findall(r"#\[(.*?)\]", it, flags=re.S)
        rest = re.sub(r"#\[.*?\]", "", it, flags=re.S).strip()
        skip = False
        for a in attrs:
            a1 = a.replace(" ", "")
            if a1.startswith("cfg(feature=") or a1.startswith("cfg(any(feature="):
                skip = True
        if skip or not rest:
            continue
        vm = re.match(r"([A-Z][A-Za-z0-9_]*)", rest)
        if vm:
            out.append(vm.group(1))
    return out


def main():
    problems = []
    lines = [
        "(* Params.v — GENERATED by tools/extract_params.py from /repo on every run. Do not edit. *)",
        "From Coq Require Import ZArith List String.",
        "Import ListNotations.",
        "Open Scope Z_scope.",
        "Module Params.",
    ]
    for name, (rel, rx) in CONSTS.items():
        try:
            src = read(rel)
        except OSError:
            if name not in OPTIONAL:
                problems.append("constant %s: file %s missing" % (name, rel))
            continue
        m = re.search(rx, src)
        if not m:
            if name not in OPTIONAL:
                problems.append("constant %s not found in %s" % (name, rel))
            continue
        val = m.group(1).replace("_", "")
        if "." in val:  # decimal string -> Decimal atomics (18 places)
            ip, fp = val.split(".")
            val = str(int(ip) * 10**18 + int((fp + "0" * 18)[:18]))
        lines.append("Definition %s : Z := %s." % (name, val))
    lines.append("Open Scope string_scope.")
    for cname, (rel, ename) in ENUMS.items():
        try:
            src = read(rel)
        except OSError:
            problems.append("inventory %s: file %s missing" % (cname, rel))
            continue
        vs = enum_variants(src, ename)
        if vs is None:
            problems.append("inventory %s: enum %s not found in %s" % (cname, ename, rel))
            continue
        seen = []
        for v in vs:
            if v not in seen:
                seen.append(v)
        lines.append("Definition %s : list string := [%s]." % (cname, "; ".join('"%s"' % v for v in seen)))
    lines.append("End Params.")
    text = "\n".join(lines) + "\n"
    old = None
    if os.path.exists(OUT):
        with open(OUT) as f:
            old = f.read()
    if old != text:
        with open(OUT, "w") as f:
            f.write(text)
    if problems:
        for p in problems:
            print("PARAMS-PROBLEM: " + p, file=sys.stderr)
        sys.exit(3)


if __name__ == "__main__":
    main()
