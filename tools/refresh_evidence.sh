#!/bin/bash
# run every registered check (quick tier, default seed) on the unchanged tree and validate the evidence files it writes
cd "$(dirname "$0")/.."
[ -n "$(git -C ${WW_REPO:-/repo} status --short)" ] && { echo "repository working tree is not clean"; exit 2; }
fail=0
for p in $(python3 -c "import json;print(' '.join(c['property_id'] for c in json.load(open('MANIFEST.json'))['checks']))"); do
  o=$(./check $p 2>&1 | grep -E "VIOLATION|quick:" | tail -1); echo "$p: $o"
  case "$o" in *VIOLATION*) fail=1;; esac
done
python3-vt - <<'PY' || fail=1
import json, jsonschema, glob
sch = json.load(open('/root/.vp/EVIDENCE.schema.json'))
bad = 0
for f in sorted(glob.glob('evidence/C*.json')):
    e = json.load(open(f))
    try:
        jsonschema.validate(e, sch)
    except Exception as x:
        print('INVALID', f, str(x)[:200]); bad = 1
    c = e['coverage']
    if c.get('obligations') != c.get('discharged') or e.get('violations'):
        print('NOT CLEAN', f, c.get('obligations'), c.get('discharged'), e.get('violations')); bad = 1
jsonschema.validate(json.load(open('MANIFEST.json')), json.load(open('/root/.vp/MANIFEST.schema.json')))
raise SystemExit(bad)
PY
exit $fail
