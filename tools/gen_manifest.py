#!/usr/bin/env python3
"""writes MANIFEST.json from tools/props.py"""
import json, os, sys
ROOT = os.path.join(os.path.dirname(os.path.abspath(__file__)), "..")
sys.path.insert(0, os.path.dirname(os.path.abspath(__file__)))
from props import PROPS
ALL = ["C%02d" % i for i in range(1, 21)]
NA = {}
na_path = os.path.join(ROOT, "tools", "not_applicable.json")
if os.path.exists(na_path):
    NA = json.load(open(na_path))
hooks_commits = []
try:
    import subprocess
    out = subprocess.check_output(["git", "-C", "/repo", "log", "--format=%H %s"]).decode()
    hooks_commits = [l.split()[0] for l in out.splitlines() if "verif hook" in l]
except Exception:
    pass
checks = []
for pid in ALL:
    if pid not in PROPS:
        continue
    c = PROPS[pid]
    checks.append({
        "property_id": pid,
        "quick_cmd": "./check %s --tier quick" % pid,
        "thorough_cmd": "./check %s --tier thorough" % pid,
        "evidence_file": "/verif/evidence/%s.json" % pid,
        "replay_cmd_template": "./check %s --replay {path}" % pid,
        "engine": "coq+harness",
        "level_claimed": {"category": "proof", "text": c["level_text"], "design_ref": c.get("design_ref", "DESIGN.md section 3")},
        "level_note": c["level_note"],
        "technique": c["technique"],
    })
manifest = {
    "version": 1,
    "setup_cmd": "./setup.sh",
    "hooks": {
        "guard": "wwcore_verif",
        "enable": "RUSTFLAGS='--cfg wwcore_verif' (set in /verif/harness/.cargo/config.toml); the harness crate path-depends on the contracts in /repo",
        "baseline_off_cmd": "cd /repo && cargo test --workspace --no-fail-fast --offline",
        "source_commits": hooks_commits,
        "add_only": True,
    },
    "engines": [{"name": "coq+harness", "path": "/verif/check", "serves_properties": [c["property_id"] for c in checks],
                 "kind_free_text": "Coq 8.16 theorems about hand-written executable Gallina models (coq/), tied to /repo by a correspondence check: Rust harness on the real contracts + vm_compute evaluation of the model on the same cases"}],
    "checks": checks,
    "not_applicable": [{"property_id": p, "reason": NA.get(p, "check not built yet in this session (work in progress; see DESIGN.md section 9)")} for p in ALL if p not in PROPS],
    "notes": "See DESIGN.md. known_findings.json lists recorded/fixed defects.",
}
json.dump(manifest, open(os.path.join(ROOT, "MANIFEST.json"), "w"), indent=1)
print("MANIFEST.json: %d checks, %d not claimed" % (len(checks), len(manifest["not_applicable"])))
