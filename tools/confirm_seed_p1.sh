#!/bin/bash
# usage: confirm_seed_p1.sh <seed_out_dir> <PROP> <k>
# phase 1 of confirm_seed.sh only: in a scratch worktree (never /repo's working tree) the existing tests of the affected crates pass
# with the patch, the demonstration fails with it and passes without it. Stores seeded/<PROP>-<k>/ with confirm.json (checks_run empty);
# phase 2 = tools/recheck_seed.sh <PROP>-<k> (applies to /repo, runs the checks, undoes).
set -u
D=$1; P=$2; K=$3
V=${VERIF_DIR:-/verif}
W=/root/work/confirm_${P}_${K}
OUT=$V/seeded/$P-$K
LOG=/root/work/logs/confirm_$P-$K.log
export CARGO_TARGET_DIR=/root/work/confirm_target CARGO_NET_OFFLINE=true
: > $LOG
git -C /repo worktree remove --force $W >/dev/null 2>&1
git -C /repo worktree add --detach $W HEAD >/dev/null 2>&1 || { echo "worktree failed"; exit 2; }
cd $W
DEMO_PATH=$(grep -oE 'contracts/[A-Za-z0-9_/.-]+\.rs|packages/[A-Za-z0-9_/.-]+\.rs' $D/demo.rs | grep -E '/tests/|demo' | head -1)
DEMO_CMD=$(python3 -c "import json,re;m=json.load(open('$D/meta.json'));c=m['demo_cmd'];print(re.search(r'cargo test[^()\n]*',c).group(0).strip())")
CRATES=$(python3 -c "
import json,re,os
m=json.load(open('$D/meta.json'))
cr=set()
for f in m['files_changed']:
    d=os.path.dirname(f)
    while d and not os.path.exists(os.path.join('$W',d,'Cargo.toml')): d=os.path.dirname(d)
    if d:
        for l in open(os.path.join('$W',d,'Cargo.toml')):
            mm=re.match(r'name\s*=\s*\"([^\"]+)\"',l)
            if mm: cr.add(mm.group(1)); break
print(' '.join('-p '+c for c in sorted(cr)))")
echo "demo path: $DEMO_PATH ; demo cmd: $DEMO_CMD ; crates: $CRATES" >> $LOG
mkdir -p $(dirname $DEMO_PATH); cp $D/demo.rs $DEMO_PATH
# a demonstration that lives inside a crate's test module tree needs its `mod` line: taken from the author's demo_cmd (echo '...' >> file)
MODLINE=$(python3 -c "import json,re;c=json.load(open('$D/meta.json'))['demo_cmd'];m=re.search(r\"echo '([^']+)' >> (\S+)\",c);print((m.group(1)+'|'+m.group(2)) if m else '')")
if [ -n "$MODLINE" ]; then MODFILE=${MODLINE#*|}; echo "${MODLINE%%|*}" >> $MODFILE; echo "mod line added to $MODFILE" >> $LOG; fi
( $DEMO_CMD ) >> $LOG 2>&1; WITHOUT=$?
git apply $D/patch.diff || { echo "patch does not apply"; exit 2; }
( $DEMO_CMD ) >> $LOG 2>&1; WITH=$?
rm -f $DEMO_PATH
if [ -n "$MODLINE" ]; then sed -i '$ d' $MODFILE; fi
( cargo test --offline $CRATES ) >> $LOG 2>&1; TESTS=$?
cd /; git -C /repo worktree remove --force $W >/dev/null 2>&1; rm -rf $W
echo "$P-$K demo without patch exit=$WITHOUT (want 0); with patch exit=$WITH (want !=0); existing tests with patch exit=$TESTS (want 0)" | tee -a $LOG
mkdir -p $OUT; cp $D/patch.diff $D/demo.rs $D/meta.json $OUT/ 2>/dev/null
python3 - <<PY
import json
json.dump({"property":"$P","demo_without_patch_exit":$WITHOUT,"demo_with_patch_exit":$WITH,"existing_tests_with_patch_exit":$TESTS,
 "demo_cmd":"$DEMO_CMD","crates_tested":"$CRATES","checks_run":[]}, open("$OUT/confirm.json","w"), indent=1)
PY
