#!/bin/bash
# usage: recheck_seed.sh <PROP-k> [checks...]   re-run the checks against an already confirmed seeded change
S=$1; shift; P=${S:0:3}; CHECKS=${*:-$P}
cd /repo && git apply /verif/seeded/$S/patch.diff || exit 2
RES=""
for c in $CHECKS; do o=$(cd /verif && ./check $c 2>&1 | grep -E "VIOLATION|quick:" | tail -1); RES="$RES$c: $o|"; done
git -C /repo checkout -- .; git -C /verif checkout -- evidence 2>/dev/null
python3 - <<PY
import json
p="/verif/seeded/$S/confirm.json"; j=json.load(open(p)); j.setdefault("history",[]).append(j.get("checks_run")); j["checks_run"]=[x for x in """$RES""".split("|") if x]; json.dump(j,open(p,"w"),indent=1); print("$S", j["checks_run"])
PY
