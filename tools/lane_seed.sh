#!/bin/bash
# (continuation session) lanes are copies made with: rsync -a /verif/ /root/work/verifN/ ; git -C /repo worktree add --detach /root/work/repoN HEAD
# seeds are read from /tmp/seed8/out/<PROP>/patch.diff - adapt the path; remove the lane and its worktree afterwards
# usage: lane.sh <n> <PROP>...   run ./check PROP in lane n against the round-8 seed of PROP
n=$1; shift
V=/root/work/verif$n; R=/root/work/repo$n
for p in "$@"; do
  git -C $R checkout -- . ; git -C $R apply /tmp/seed8/out/$p/patch.diff || { echo "$p: patch failed" >> /root/work/logs/lane8.log; continue; }
  ( cd $V && WW_REPO=$R timeout 1500 ./check $p > /root/work/logs/lane8_$p.log 2>&1 )
  echo "$p: $(grep -E 'VIOLATION|quick:' /root/work/logs/lane8_$p.log | tail -2 | tr '\n' ' ')" >> /root/work/logs/lane8.log
  git -C $R checkout -- .
done
echo "lane $n done" >> /root/work/logs/lane8.log
