"""Per-property configuration of ./check (streams, budgets, trusted base, manifest text)."""

COMMON_TRUSTED = [
    "Coq 8.16.1 kernel (coqc, full .vo build; no -vos); vm_compute is used to evaluate the model on the correspondence cases and in proofs of closed finite facts; no native_compute; no extraction",
    "Print Assumptions under every theorem of coq/props/<id>.v is re-run on each check and must report 'Closed under the global context' (no axioms) unless allowlisted by name in tools/props.py",
    "tools/extract_params.py (regex translator Rust constants / message inventories -> coq/theories/Params.v)",
    "correspondence check: harness/ (Rust, drives the real contracts of /repo's working tree under cw-multi-test 0.16.5 with white-whale-std patched to /repo/packages) + ./check (sharding, coqc vm_compute, comparison inside Coq by Corr.bad_cases)",
    "modelled, not verified: cosmwasm-std 1.5.4 numeric types (Prim.v), cw-multi-test bank/wasm execution and transaction atomicity, cw20-base, cw-storage-plus",
]

PROPS = {
    "C02": {
        "title": "constant-product swap arithmetic",
        "corr_modules": ["CorrC02"],
        "streams": {"c02": ("CorrC02", "run_c02"), "c02_valid": ("CorrC02", "run_c02_valid")},
        "n": {"quick": 3000, "thorough": 40000},
        "trusted": ["hook terraswap_pair::verif_hooks (cfg wwcore_verif) re-exporting helpers::compute_swap"],
        "assumptions": ["default build (no osmosis fee)"],
        "design_ref": "DESIGN.md section 3 C02",
        "level_text": "Theorems in Coq for all reserves/offers in [1,2^128) and all valid fee triples about an executable model of compute_swap (closed form proved equal to the operation-by-operation transcription, including every 256-bit overflow guard); the model is tied to the code on every run by evaluating it with vm_compute on the same inputs the real function and the real Simulation query are run on.",
        "level_note": "Trusted: Coq kernel + vm_compute; the correspondence harness and its generators; cosmwasm-std Decimal256/Uint256 semantics as transcribed in Prim.v (validated by the same stream). No axioms.",
        "technique": "Coq proof (lia/nia over Z with explicit overflow guards) + model/implementation correspondence by vm_compute",
    },
}
