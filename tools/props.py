"""Per-property configuration of ./check: one JSON file per property under tools/props.d/ (streams, budgets,
trusted base, manifest text)."""
import glob
import json
import os

COMMON_TRUSTED = [
    "Coq 8.16.1 kernel (coqc, full .vo build; no -vos); vm_compute is used to evaluate the model on the correspondence cases and in proofs of closed finite facts; no native_compute; no extraction",
    "Print Assumptions under every theorem of coq/props/<id>.v is re-run on each check and must report 'Closed under the global context' (no axioms) unless allowlisted by name in tools/props.d/<id>.json",
    "tools/extract_params.py (regex translator Rust constants / message inventories -> coq/theories/Params.v)",
    "correspondence check: harness/ (Rust, drives the real contracts of /repo's working tree under cw-multi-test 0.16.5 with white-whale-std patched to /repo/packages) + ./check (sharding, coqc vm_compute, comparison inside Coq by Corr.bad_cases)",
    "modelled, not verified: cosmwasm-std 1.5.4 numeric types (Prim.v), cw-multi-test bank/wasm execution and transaction atomicity, cw20-base, cw-storage-plus",
]

PROPS = {}
for _p in sorted(glob.glob(os.path.join(os.path.dirname(os.path.abspath(__file__)), "props.d", "C*.json"))):
    _c = json.load(open(_p))
    _c["streams"] = {k: tuple(v) for k, v in _c["streams"].items()}
    PROPS[os.path.basename(_p)[:-5]] = _c
