#!/bin/sh
# harness/Cargo.toml is generated: the contracts are path dependencies of ${WW_REPO:-/repo}
cd "$(dirname "$0")/../harness" || exit 1
R="${WW_REPO:-/repo}"
sed "s#@REPO@#$R#g" Cargo.toml.in > Cargo.toml.new
if ! cmp -s Cargo.toml.new Cargo.toml 2>/dev/null; then
  # the repository path changed: artefacts built against the other tree's white-whale-std must not be reused
  [ -f Cargo.toml ] && [ -d target ] && cargo clean >/dev/null 2>&1
  mv Cargo.toml.new Cargo.toml
else rm -f Cargo.toml.new; fi
# the lock file is a copy of the repository's own lock (offline resolution), refreshed only when absent
[ -f Cargo.lock ] || cp "$R/Cargo.lock" Cargo.lock
