#!/bin/bash
# usage: confirm_seed.sh <seed_out_dir e.g. /tmp/seed/out_C02/1> <PROP> <k>
# 1. in a scratch worktree: existing tests of affected crates pass with the patch; demo fails with, passes without
# 2. apply to /repo, run ./check for the listed properties, undo
# writes /verif/seeded/<PROP>-<k>/ (patch.diff, demo.rs, meta.json + confirm.json)
set -u
D=$1; P=$2; K=$3; shift 3
CHECKS=${*:-$P}
W=/tmp/confirm_${P}_${K}
OUT=/verif/seeded/$P-$K
LOG=/tmp/confirm_$P-$K.log
: > $LOG
git -C /repo worktree remove --force $W >/dev/null 2>&1
git -C /repo worktree add --detach $W HEAD >/dev/null 2>&1 || { echo "worktree failed"; exit 2; }
cd $W
DEMO_PATH=$(grep -oE 'contracts/[A-Za-z0-9_/.-]+\.rs|packages/[A-Za-z0-9_/.-]+\.rs' $D/demo.rs | grep -E '/tests/|demo' | head -1)
DEMO_CMD=$(python3 -c "import json,re;m=json.load(open('$D/meta.json'));c=m['demo_cmd'];print(re.search(r'cargo test[^()\n]*',c).group(0).strip())")
CRATES=$(python3 -c "
import json,re,os
m=json.load(open('$D/meta.json'))
cr=set()
for f in m['files_changed']:
    d=os.path.dirname(f)
    while d and not os.path.exists(os.path.join('$W',d,'Cargo.toml')): d=os.path.dirname(d)
    if d:
        for l in open(os.path.join('$W',d,'Cargo.toml')):
            mm=re.match(r'name\s*=\s*\"([^\"]+)\"',l)
            if mm: cr.add(mm.group(1)); break
print(' '.join('-p '+c for c in sorted(cr)))")
echo "demo path: $DEMO_PATH ; demo cmd: $DEMO_CMD ; crates: $CRATES" | tee -a $LOG
mkdir -p $(dirname $DEMO_PATH); cp $D/demo.rs $DEMO_PATH
( $DEMO_CMD ) >> $LOG 2>&1; WITHOUT=$?
git apply $D/patch.diff || { echo "patch does not apply"; exit 2; }
( $DEMO_CMD ) >> $LOG 2>&1; WITH=$?
rm -f $DEMO_PATH
( cargo test --offline $CRATES ) >> $LOG 2>&1; TESTS=$?
cd /; git -C /repo worktree remove --force $W >/dev/null 2>&1; rm -rf $W
echo "demo without patch exit=$WITHOUT (want 0); with patch exit=$WITH (want !=0); existing tests with patch exit=$TESTS (want 0)" | tee -a $LOG
# now our checks
cd /repo && git apply $D/patch.diff || exit 2
RES=""
for c in $CHECKS; do
  o=$(cd /verif && ./check $c 2>&1 | grep -E "VIOLATION|quick:" | tail -1)
  RES="$RES$c: $o\n"
done
git -C /repo checkout -- .; git -C /verif checkout -- evidence 2>/dev/null ; git -C /repo status --short | head -3
echo -e "$RES" | tee -a $LOG
mkdir -p $OUT; cp $D/patch.diff $D/demo.rs $D/meta.json $OUT/ 2>/dev/null
python3 - <<PY
import json
json.dump({"property":"$P","demo_without_patch_exit":$WITHOUT,"demo_with_patch_exit":$WITH,"existing_tests_with_patch_exit":$TESTS,
 "demo_cmd":"$DEMO_CMD","crates_tested":"$CRATES","checks_run":"""$RES""".strip().split("\\\\n")}, open("$OUT/confirm.json","w"), indent=1)
PY
